#!/usr/bin/env python3
"""Fill the seeded-changes table of DESIGN.md from /verif/seeded/*/meta.json."""
import json, glob, os, re
rows = []
for f in sorted(glob.glob('/verif/seeded/*/meta.json')):
    m = json.load(open(f)); k = os.path.basename(os.path.dirname(f))
    verdicts = []
    for c, lines in m.get('check_results_on_seeded_tree', {}).items():
        v = [l for l in lines if l.startswith('VIOLATION')]
        u = [l for l in lines if 'UNDECIDED' in l]
        rc = [l for l in lines if l.startswith('rc=')]
        verdicts.append(f"{c}: {'VIOLATION x%d' % len(v) if v else ('UNDECIDED' if u else 'passed (MISSED)')} ({rc[0] if rc else ''})")
    rows.append(f"| {k} | {m['change']} ({m['needs']}) | {'; '.join(m['detected_by'])} | {'; '.join(verdicts)} |")
s = open('/verif/DESIGN.md').read()
a = s.index('| seed | change (needs to manifest)')
b = s.index('\n\n', a)
hdr = '| seed | change (needs to manifest) | caught by | verdict line |\n|---|---|---|---|\n'
s = s[:a] + hdr + '\n'.join(rows) + s[b:]
open('/verif/DESIGN.md', 'w').write(s)
print(len(rows), 'rows')
