// F6 reproducer (public API only, build WITHOUT overflow checks, i.e. any release build):
// width*height wraps to 0, so an empty buffer is accepted as a 2^32 x 2^32 image.
use yuvxyb::*;
fn main() {
    let rgb = Rgb::new(vec![], 1 << 32, 1 << 32, TransferCharacteristic::SRGB, ColorPrimaries::BT709);
    println!("Rgb::new accepted an empty buffer as 2^32 x 2^32: {}", rgb.is_ok());
    let cfg = YuvConfig { bit_depth: 8, subsampling_x: 0, subsampling_y: 0, full_range: false,
        matrix_coefficients: MatrixCoefficients::BT709, transfer_characteristics: TransferCharacteristic::BT1886,
        color_primaries: ColorPrimaries::BT709 };
    let yuv = Yuv::<u8>::try_from((&rgb.unwrap(), cfg));
    println!("{:?}", yuv.is_ok());
}
