// F5 reproducer (public API): linear grey 0.2 -> YUV with transfer/primaries Unspecified, then decode the
// result WITH ITS OWN STORED CONFIG.  Label = content requires the round trip to return ~0.2.
use yuvxyb::*;
fn main() {
    let lin = LinearRgb::new(vec![[0.2f32; 3]; 4], 2, 2).unwrap();
    let cfg = YuvConfig { bit_depth: 8, subsampling_x: 0, subsampling_y: 0, full_range: true,
        matrix_coefficients: MatrixCoefficients::BT709, transfer_characteristics: TransferCharacteristic::Unspecified,
        color_primaries: ColorPrimaries::Unspecified };
    let yuv = Yuv::<u8>::try_from((lin, cfg)).unwrap();
    println!("stored transfer = {:?}, primaries = {:?}", yuv.config().transfer_characteristics, yuv.config().color_primaries);
    let back = LinearRgb::try_from(&yuv).unwrap();
    let v = back.data()[0][0];
    println!("linear 0.2 came back as {v}");
    // 8-bit budget of C09/C15: 3 codes of 255 in gamma space ~ well under 0.02 in linear light here
    assert!((v - 0.2).abs() < 0.02, "label != content: decoded {v} instead of 0.2");
}
