// F2 reproducer (public API only): a 4x4 4:2:0 frame whose chroma planes are 1x1 instead of 2x2.
use yuvxyb::*;
fn main() {
    let frame: Frame<u8> = Frame { planes: [
        Plane::new(4, 4, 0, 0, 0, 0),
        Plane::new(1, 1, 1, 1, 0, 0),
        Plane::new(1, 1, 1, 1, 0, 0),
    ]};
    let cfg = YuvConfig { bit_depth: 8, subsampling_x: 1, subsampling_y: 1, full_range: false,
        matrix_coefficients: MatrixCoefficients::BT709, transfer_characteristics: TransferCharacteristic::BT1886,
        color_primaries: ColorPrimaries::BT709 };
    let yuv = Yuv::new(frame, cfg);
    println!("Yuv::new accepted: {}", yuv.is_ok());
    if let Ok(yuv) = yuv {
        let rgb = Rgb::try_from(&yuv).unwrap();   // reads chroma row 1 of a 1-row plane
        println!("{:?}", rgb.data()[15]);
    }
}
