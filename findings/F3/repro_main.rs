// F3 reproducer (public API only): 3x3 RGB image encoded to 4:2:0.
use yuvxyb::*;
fn main() {
    let rgb = Rgb::new(vec![[0.5f32; 3]; 9], 3, 3, TransferCharacteristic::SRGB, ColorPrimaries::BT709).unwrap();
    let cfg = YuvConfig { bit_depth: 8, subsampling_x: 1, subsampling_y: 1, full_range: false,
        matrix_coefficients: MatrixCoefficients::BT709, transfer_characteristics: TransferCharacteristic::BT1886,
        color_primaries: ColorPrimaries::BT709 };
    let yuv = Yuv::<u8>::try_from((&rgb, cfg));
    println!("{:?}", yuv.is_ok());
}
