#!/bin/bash
# usage: reseed.sh <seed name> <check ids...>  -- re-applies a stored seeded patch to /repo, runs checks, ALWAYS restores /repo
NAME=$1; shift
OUT=/verif/seeded/$NAME
cd /verif
git -C /repo diff --quiet || { echo "/repo dirty, abort"; exit 3; }
git -C /repo apply $OUT/patch.diff || { echo "patch does not apply"; exit 3; }
for c in "$@"; do
  ./check $c > $OUT/check_$c.txt 2>&1; echo "rc=$?" >> $OUT/check_$c.txt
  grep -E "^\[|VIOLATION|UNDECIDED|rc=" $OUT/check_$c.txt | cut -c1-220 | head -8
done
git -C /repo checkout -- .
git -C /repo status --short | head -3
