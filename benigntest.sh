#!/bin/bash
# usage: benigntest.sh <name> <checks...> -- applies /verif/benign/<name>.diff (a PROPERTY-PRESERVING edit) to /repo, runs the checks, ALWAYS restores /repo.
# Expected: exit 0 (or exit 2 = undecided where the extraction cannot follow the edit); exit 1 would be a false alarm.
NAME=$1; shift
cd /verif
git -C /repo diff --quiet || { echo "/repo dirty, abort"; exit 3; }
git -C /repo apply /verif/benign/$NAME.diff || { echo "patch does not apply"; exit 3; }
(cd /repo && cargo test --workspace --offline --no-fail-fast --lib 2>&1 | grep -E "^test result" | head -1)
for c in "$@"; do
  ./check $c > /verif/benign/${NAME}_$c.txt 2>&1; echo "rc=$?" >> /verif/benign/${NAME}_$c.txt
  grep -E "^\[|VIOLATION|UNDECIDED|rc=" /verif/benign/${NAME}_$c.txt | cut -c1-260 | head -6
done
git -C /repo checkout -- .
git -C /repo status --short | head -3
