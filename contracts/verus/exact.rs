// ---- preamble: exact-field semantics (assumption "machine arithmetic treated as mathematical") ----
// FastMulAdd is the repo's trait (yuvxyb-math/src/mul_add.rs); its declaration is re-stated here with
// a specification because Verus needs spec members on the trait to talk about `fast_mul_add`.
pub trait FastMulAdd: Sized + Mul<Self, Output = Self> + Add<Self, Output = Self> {
    spec fn fma_req(self, a: Self, b: Self) -> bool;
    spec fn fma_spec(self, a: Self, b: Self) -> Self;
    fn fast_mul_add(self, a: Self, b: Self) -> (r: Self)
        requires self.fma_req(a, b),
        ensures r == self.fma_spec(a, b);
}

// T: Exact  <=>  T's `*`, `/`, unary `-`, `+` and `fast_mul_add` are the field operations on val(): real.
pub trait Exact: Copy + FastMulAdd + Mul<Self, Output = Self> + Div<Self, Output = Self>
    + Neg<Output = Self> + MulSpec<Self> + DivSpec<Self> + NegSpec + AddSpec<Self> {
    spec fn val(self) -> real;
    proof fn ax()
        ensures
            Self::obeys_mul_spec(), Self::obeys_div_spec(), Self::obeys_neg_spec(), Self::obeys_add_spec(),
            forall|a: Self, b: Self| #[trigger] a.mul_req(b),
            forall|a: Self, b: Self| #[trigger] a.mul_spec(b).val() == a.val() * b.val(),
            forall|a: Self, b: Self| #[trigger] a.div_req(b),   // float division is total; for b == 0 the value is unspecified
            forall|a: Self, b: Self| b.val() != 0real ==> #[trigger] a.div_spec(b).val() == a.val() / b.val(),
            forall|a: Self| #[trigger] a.neg_req(),
            forall|a: Self| #[trigger] a.neg_spec().val() == -a.val(),
            forall|a: Self, b: Self| #[trigger] a.add_req(b),
            forall|a: Self, b: Self| #[trigger] a.add_spec(b).val() == a.val() + b.val(),
            forall|a: Self, b: Self, c: Self| #[trigger] a.fma_req(b, c),
            forall|a: Self, b: Self, c: Self| #[trigger] a.fma_spec(b, c).val() == a.val() * b.val() + c.val(),
    ;
}

// ideal real functions (uninterpreted; lemmas that need their laws state them as explicit hypotheses)
pub uninterp spec fn s_sqrt(x: real) -> real;
pub uninterp spec fn s_ln(x: real) -> real;
pub uninterp spec fn s_log10(x: real) -> real;
pub uninterp spec fn s_pow(x: real, y: real) -> real;
pub uninterp spec fn s_exp(x: real) -> real;
