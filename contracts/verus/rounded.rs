// ---- preamble: STANDARD MODEL of binary32 arithmetic (assumption "SM") ------------------------------------------------
// T: Rounded  <=>  every `*` and `fast_mul_add` on T returns the exact real result up to one (fused) or two (unfused)
// roundings, each with relative error <= U = 2^-24 plus an absolute term ETA = 2^-149 for gradual underflow; no overflow.
// This is the textbook model fl(z) = z(1+d)+e, |d| <= u, |e| <= eta (Higham, ASNA, 2.2), valid for IEEE-754 round-to-nearest
// when |z| stays below the overflow threshold (true here: all magnitudes are <= 8).
pub trait FastMulAdd: Sized + Mul<Self, Output = Self> + Add<Self, Output = Self> {
    spec fn fma_req(self, a: Self, b: Self) -> bool;
    spec fn fma_spec(self, a: Self, b: Self) -> Self;
    fn fast_mul_add(self, a: Self, b: Self) -> (r: Self)
        requires self.fma_req(a, b),
        ensures r == self.fma_spec(a, b);
}
pub open spec fn absr(x: real) -> real { if x < 0real { -x } else { x } }
// U = 0.00000006 >= 2^-24 = 5.96e-8 and ETA = 2e-45 >= 2^-149 are written as literals everywhere (products with a named constant are nonlinear for Z3)
pub open spec fn rnd(z: real, r: real) -> bool { absr(r - z) <= 0.00000006real * absr(z) + 0.000000000000000000000000000000000000000000002real }   // r is a rounding of z
// bound on one fast_mul_add: |r - (ab + c)| <= U*(2.0000001|ab| + |c|) + 3 ETA   (implied by the fused AND by the unfused evaluation: lemma below)
pub open spec fn fma_bound(ab: real, c: real, r: real) -> bool { absr(r - (ab + c)) <= 0.00000006real * (2.0000001real * absr(ab) + absr(c)) + 3real * 0.000000000000000000000000000000000000000000002real }
pub trait Rounded: Copy + FastMulAdd + Mul<Self, Output = Self> + MulSpec<Self> + Div<Self, Output = Self> + DivSpec<Self> + Neg<Output = Self> + NegSpec {
    spec fn val(self) -> real;
    proof fn ax()
        ensures
            Self::obeys_mul_spec(),
            forall|a: Self, b: Self| #[trigger] a.mul_req(b),
            forall|a: Self, b: Self| rnd(a.val() * b.val(), #[trigger] a.mul_spec(b).val()),
            forall|a: Self, b: Self, c: Self| #[trigger] a.fma_req(b, c),
            forall|a: Self, b: Self, c: Self| fma_bound(a.val() * b.val(), c.val(), #[trigger] a.fma_spec(b, c).val()),
            // unary minus flips the sign bit: exact.  Division: one rounding of the exact quotient (divisor != 0)
            Self::obeys_neg_spec(), Self::obeys_div_spec(),
            forall|a: Self| #[trigger] a.neg_req(),
            forall|a: Self| #[trigger] a.neg_spec().val() == -a.val(),
            forall|a: Self, b: Self| #[trigger] a.div_req(b),
            forall|a: Self, b: Self| b.val() != 0real ==> rnd(a.val() / b.val(), #[trigger] a.div_spec(b).val()),
    ;
}
// justification of fma_bound from the rounding model: unfused  r = fl(fl(ab) + c)  and fused  r = fl(ab + c)
pub proof fn lemma_unfused_fma(ab: real, c: real, p: real, r: real)
    requires rnd(ab, p), rnd(p + c, r)
    ensures fma_bound(ab, c, r)
{
    let u = 0.00000006real; let e = 0.000000000000000000000000000000000000000000002real;
    assert(absr(p) <= absr(ab) + (u * absr(ab) + e));
    assert(absr(p + c) <= absr(p) + absr(c));
    assert(u * absr(p + c) <= u * (absr(ab) + (u * absr(ab) + e) + absr(c))) by(nonlinear_arith)
        requires absr(p + c) <= absr(ab) + (u * absr(ab) + e) + absr(c), u == 0.00000006real;
    assert(u * (u * absr(ab)) <= 0.0000001real * (u * absr(ab))) by(nonlinear_arith) requires u == 0.00000006real, absr(ab) >= 0real;
    assert(u * e <= e) by(nonlinear_arith) requires u == 0.00000006real, e >= 0real;
    assert(u * (absr(ab) + (u * absr(ab) + e) + absr(c)) == u * absr(ab) + (u * (u * absr(ab)) + u * e) + u * absr(c)) by(nonlinear_arith);
    assert(0.0000001real * (u * absr(ab)) == u * (0.0000001real * absr(ab))) by(nonlinear_arith);
    assert(u * (2.0000001real * absr(ab) + absr(c)) == u * absr(ab) + u * absr(ab) + u * (0.0000001real * absr(ab)) + u * absr(c)) by(nonlinear_arith);
}
pub proof fn lemma_fused_fma(ab: real, c: real, r: real)
    requires rnd(ab + c, r)
    ensures fma_bound(ab, c, r)
{
    let u = 0.00000006real;
    assert(absr(ab + c) <= absr(ab) + absr(c));
    assert(u * absr(ab + c) <= u * (absr(ab) + absr(c))) by(nonlinear_arith) requires absr(ab + c) <= absr(ab) + absr(c), u == 0.00000006real;
    assert(u * (absr(ab) + absr(c)) <= u * (2.0000001real * absr(ab) + absr(c))) by(nonlinear_arith) requires u == 0.00000006real, absr(ab) >= 0real;
}
