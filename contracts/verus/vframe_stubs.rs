// ---- v_frame 0.3.x stand-ins (assumed contracts, transcribed from the 3-5 line bodies in plane.rs) ----
// PlaneConfig's field list is copied mechanically from the registry source by the unit builder (above).
pub trait Pixel: Copy {
    // value of the sample as an integer (u8 and u16 are the only implementors of v_frame::Pixel)
    spec fn code(self) -> int;
    // every implementor is a 1- or 2-byte sample type (u8, u16): an obligation on implementors, usable for generic T
    proof fn ax_size() ensures size_of::<Self>() == 1 || size_of::<Self>() == 2;
}
pub struct PlaneData<T> { pub v: Vec<T> }
impl<T> PlaneData<T> {
    // `plane.data.len()` resolves through Deref<Target=[T]> in the real crate
    #[verifier::external_body]
    pub fn len(&self) -> (r: usize) ensures r == self.v@.len() { self.v.len() }
}
pub struct Plane<T> { pub data: PlaneData<T>, pub cfg: PlaneConfig }
pub struct Frame<T> { pub planes: [Plane<T>; 3] }

// index of (0,0):  Plane::index(0,0) = (0 + yorigin) * stride + (0 + xorigin)
pub open spec fn origin(p: PlaneConfig) -> int { p.yorigin * p.stride + p.xorigin }

impl<T> Plane<T> {
    // pub fn data_origin(&self) -> &[T] { &self.data[self.index(0, 0)..] }
    //   panics (slice index) when index(0,0) > len, and index() may overflow: both are preconditions here
    #[verifier::external_body]
    pub fn data_origin(&self) -> (r: &[T])
        requires origin(self.cfg) <= self.data.v@.len(),
        ensures r@ == self.data.v@.subrange(origin(self.cfg), self.data.v@.len() as int),
    { unimplemented!() }

    // pub fn data_origin_mut(&mut self) -> &mut [T] { let i = self.index(0, 0); &mut self.data[i..] }
    #[verifier::external_body]
    pub fn data_origin_mut(&mut self) -> (r: &mut [T])
        requires origin(old(self).cfg) <= old(self).data.v@.len(),
        ensures r@ == old(self).data.v@.subrange(origin(old(self).cfg), old(self).data.v@.len() as int),
                final(self).cfg == old(self).cfg,
                final(r)@.len() == r@.len(),
                final(self).data.v@ == old(self).data.v@.subrange(0, origin(old(self).cfg)) + final(r)@,
    { unimplemented!() }
}

// ---- <[T]>::get_unchecked / get_unchecked_mut: the std safety contract `index < len` is the precondition,
// so discharging it at every call site IS the proof that no out-of-bounds (UB) access happens.
#[verifier::external_body]
pub fn get_unchecked_<T: Copy>(s: &[T], i: usize) -> (r: T)
    requires i < s@.len(),
    ensures r == s@[i as int],
{ unsafe { *s.get_unchecked(i) } }
#[verifier::external_body]
pub fn set_unchecked_<T: Copy>(s: &mut [T], i: usize, v: T)
    requires i < old(s)@.len(),
    ensures final(s)@ == old(s)@.update(i as int, v),
{ unsafe { *s.get_unchecked_mut(i) = v; } }
#[verifier::external_body]
pub fn vec_set_unchecked_<T: Copy>(s: &mut Vec<T>, i: usize, v: T)
    requires i < old(s)@.len(),
    ensures final(s)@ == old(s)@.update(i as int, v),
{ unsafe { *s.get_unchecked_mut(i) = v; } }
#[verifier::external_body]
pub fn get_unchecked_ref_<T>(s: &[T], i: usize) -> (r: &T)
    requires i < s@.len(),
    ensures *r == s@[i as int],
{ unsafe { s.get_unchecked(i) } }

// Plane::new(width, height, xdec, ydec, xpad, ypad) =
//     let cfg = PlaneConfig::new(width, height, xdec, ydec, xpad, ypad, size_of::<T>());   <- extracted from v_frame and VERIFIED (cfg_post)
//     let data = PlaneData::new(cfg.stride * cfg.alloc_height);                            <- assumed: that many samples, all T::cast_from(128)
// ASSUMPTION (requires): the allocation size stride*alloc_height does not overflow usize.
impl<T: Pixel> Plane<T> {
    #[verifier::external_body]
    pub fn new(width: usize, height: usize, xdec: usize, ydec: usize, xpad: usize, ypad: usize) -> (r: Self)
        requires size_of::<T>() == 1 || size_of::<T>() == 2,
                 (xpad + 64 + width + xpad + 64) * (ypad + height + ypad) <= usize::MAX, ypad + height + ypad <= usize::MAX, xpad + 64 + width + xpad + 64 <= usize::MAX,
        ensures cfg_post(r.cfg, width, height, xdec, ydec, xpad, ypad),
                r.data.v@.len() == r.cfg.stride * r.cfg.alloc_height, r.data.v@.len() <= usize::MAX,
                forall|i: int| 0 <= i < r.data.v@.len() ==> (#[trigger] r.data.v@[i]).code() == 128,
    { unimplemented!() }
}
// R-split3: stands for the three `split_first_mut().expect("has 3 planes")` lines (safe borrow plumbing)
#[verifier::external_body]
pub fn split3_mut<T>(a: &mut [Plane<T>; 3]) -> (r: (&mut Plane<T>, &mut Plane<T>, &mut Plane<T>))
    ensures *r.0 == old(a)[0], *r.1 == old(a)[1], *r.2 == old(a)[2],
            final(a)[0] == *final(r.0), final(a)[1] == *final(r.1), final(a)[2] == *final(r.2),
{ unimplemented!() }
// `assert!(c, "..")`: returns only if c holds (panics otherwise)
#[verifier::external_body]
pub fn checked_assert(c: bool) ensures c { assert!(c) }
