// ---- Fx / Fx64: stand-ins for f32 / f64 under exact semantics --------------------------------------
// Token substitution f32 -> Fx, f64 -> Fx64 is the *only* change to non-generic float code in E2 units.
// Assumed (trusted) contracts: each arithmetic operator is the corresponding real operation; a decimal
// literal denotes the rational it spells.  Dropped: IEEE rounding, literal rounding, NaN/inf/overflow.
macro_rules! fx_type { ($Fx:ident) => { verus! {
#[verifier::external_body]
#[verifier::accept_recursive_types]
pub struct $Fx { _p: u64 }
impl Copy for $Fx {}
impl Clone for $Fx { #[verifier::external_body] fn clone(&self) -> (r: Self) ensures r == *self { *self } }
pub uninterp spec fn ${concat($Fx, _val)}(x: $Fx) -> real;
impl $Fx {
    // decimal literal  n / d
    #[verifier::external_body]
    pub const fn lit(n: u64, d: u64) -> (r: Self)
        requires d > 0
        ensures r.val() == (n as real) / (d as real)
    { $Fx { _p: 0 } }
}
} } }
