// ---- mathematical 3-vectors / 3x3 matrices over the reals (the oracle side of C19/C01/C02/C06/C08) ----
pub struct V3 { pub x: real, pub y: real, pub z: real }
pub struct M3 { pub a: V3, pub b: V3, pub c: V3 }   // rows

pub open spec fn v3(x: real, y: real, z: real) -> V3 { V3 { x, y, z } }
pub open spec fn m3(a: V3, b: V3, c: V3) -> M3 { M3 { a, b, c } }
pub open spec fn v3_dot(p: V3, q: V3) -> real { p.x * q.x + p.y * q.y + p.z * q.z }
pub open spec fn v3_cross(p: V3, q: V3) -> V3 {
    v3(p.y * q.z - p.z * q.y, p.z * q.x - p.x * q.z, p.x * q.y - p.y * q.x)
}
pub open spec fn m3_col(m: M3, j: int) -> V3 {
    if j == 0 { v3(m.a.x, m.b.x, m.c.x) } else if j == 1 { v3(m.a.y, m.b.y, m.c.y) } else { v3(m.a.z, m.b.z, m.c.z) }
}
pub open spec fn m3_t(m: M3) -> M3 { m3(m3_col(m, 0), m3_col(m, 1), m3_col(m, 2)) }
pub open spec fn m3_mulvec(m: M3, v: V3) -> V3 { v3(v3_dot(m.a, v), v3_dot(m.b, v), v3_dot(m.c, v)) }
pub open spec fn v3_mulmat(r: V3, m: M3) -> V3 { v3(v3_dot(r, m3_col(m, 0)), v3_dot(r, m3_col(m, 1)), v3_dot(r, m3_col(m, 2))) }
pub open spec fn m3_mul(p: M3, q: M3) -> M3 { m3(v3_mulmat(p.a, q), v3_mulmat(p.b, q), v3_mulmat(p.c, q)) }
pub open spec fn m3_id() -> M3 { m3(v3(1real, 0real, 0real), v3(0real, 1real, 0real), v3(0real, 0real, 1real)) }
pub open spec fn m3_det(m: M3) -> real {
    m.a.x * (m.b.y * m.c.z - m.c.y * m.b.z) - m.a.y * (m.b.x * m.c.z - m.c.x * m.b.z)
        + m.a.z * (m.b.x * m.c.y - m.c.x * m.b.y)
}
// adjugate (transposed cofactor matrix)
pub open spec fn m3_adj(m: M3) -> M3 {
    m3(
        v3(m.b.y * m.c.z - m.c.y * m.b.z, -(m.a.y * m.c.z - m.c.y * m.a.z), m.a.y * m.b.z - m.b.y * m.a.z),
        v3(-(m.b.x * m.c.z - m.c.x * m.b.z), m.a.x * m.c.z - m.c.x * m.a.z, -(m.a.x * m.b.z - m.b.x * m.a.z)),
        v3(m.b.x * m.c.y - m.c.x * m.b.y, -(m.a.x * m.c.y - m.c.x * m.a.y), m.a.x * m.b.y - m.b.x * m.a.y),
    )
}
pub open spec fn v3_div(p: V3, d: real) -> V3 { v3(p.x / d, p.y / d, p.z / d) }
pub open spec fn m3_div(m: M3, d: real) -> M3 { m3(v3_div(m.a, d), v3_div(m.b, d), v3_div(m.c, d)) }
pub open spec fn m3_inv(m: M3) -> M3 { m3_div(m3_adj(m), m3_det(m)) }
