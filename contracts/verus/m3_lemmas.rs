// ---- C19 lemmas over the mathematical side (pure real arithmetic; no code involved) ----
pub proof fn lemma_transpose_involution<T>(m: Matrix<T>)
    ensures mt(mt(m)) == m
{}
pub proof fn lemma_m3_ext(p: M3, q: M3)
    requires p.a.x == q.a.x, p.a.y == q.a.y, p.a.z == q.a.z,
             p.b.x == q.b.x, p.b.y == q.b.y, p.b.z == q.b.z,
             p.c.x == q.c.x, p.c.y == q.c.y, p.c.z == q.c.z,
    ensures p == q
{}
pub proof fn lemma_mul_identity(a: M3)
    ensures m3_mul(a, m3_id()) == a, m3_mul(m3_id(), a) == a
{
    pp_one(a.a.x); pp_one(a.a.y); pp_one(a.a.z); pp_one(a.b.x); pp_one(a.b.y); pp_one(a.b.z); pp_one(a.c.x); pp_one(a.c.y); pp_one(a.c.z);
    pp_zero(a.a.x); pp_zero(a.a.y); pp_zero(a.a.z); pp_zero(a.b.x); pp_zero(a.b.y); pp_zero(a.b.z); pp_zero(a.c.x); pp_zero(a.c.y); pp_zero(a.c.z);
    lemma_m3_ext(m3_mul(a, m3_id()), a);
    lemma_m3_ext(m3_mul(m3_id(), a), a);
}
