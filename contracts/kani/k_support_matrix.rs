// Kani harness for src/yuv_rgb/color.rs (child module): C14 for the YUV<->RGB stage over every (matrix, primaries) pair.
use super::*;
use crate::{ColorPrimaries, ConversionError, FromPrimitive, MatrixCoefficients, TransferCharacteristic, YuvConfig};

fn any_mc() -> MatrixCoefficients { let k: u8 = kani::any(); match MatrixCoefficients::from_u8(k) { Some(m) => m, None => { kani::assume(false); MatrixCoefficients::Unspecified } } }
fn any_cp() -> ColorPrimaries { let k: u8 = kani::any(); match ColorPrimaries::from_u8(k) { Some(m) => m, None => { kani::assume(false); ColorPrimaries::Unspecified } } }
fn std7(m: MatrixCoefficients) -> bool {
    matches!(m, MatrixCoefficients::BT709 | MatrixCoefficients::BT470M | MatrixCoefficients::BT470BG | MatrixCoefficients::ST170M
        | MatrixCoefficients::ST240M | MatrixCoefficients::BT2020NonConstantLuminance | MatrixCoefficients::YCgCo)
}
fn names_a_field(e: ConversionError) -> bool {
    matches!(e, ConversionError::UnsupportedMatrixCoefficients | ConversionError::UnspecifiedMatrixCoefficients
        | ConversionError::UnsupportedColorPrimaries | ConversionError::UnspecifiedColorPrimaries)
}
// C14 for the YUV<->RGB stage: both directions succeed or fail together with the same error, for every (matrix, primaries) pair;
// the 7 standard matrices are always supported; an error names the matrix or the primaries.
#[kani::proof]
fn yuv_rgb_support_symmetric_every_matrix_and_primaries() {
    let c = YuvConfig { bit_depth: 8, subsampling_x: 0, subsampling_y: 0, full_range: false,
        matrix_coefficients: any_mc(), transfer_characteristics: TransferCharacteristic::BT1886, color_primaries: any_cp() };
    kani::cover!(c.matrix_coefficients == MatrixCoefficients::Identity);
    kani::cover!(c.matrix_coefficients == MatrixCoefficients::Reserved);
    let f = get_rgb_to_yuv_matrix(c);
    let b = get_yuv_to_rgb_matrix(c);
    match (f, b) {
        (Ok(_), Ok(_)) => {}
        (Err(e1), Err(e2)) => { assert!(e1 == e2); assert!(names_a_field(e1)); assert!(!std7(c.matrix_coefficients)); }
        _ => { assert!(false); }
    }
}
