// Kani harnesses for src/yuv_rgb/transfer.rs (child module: sees the private scalar curve functions).
// Totality harnesses are loop-free over ALL f32 bit patterns (complete); grid round trips are bounded.
use super::*;

macro_rules! total {
    ($( $h:ident = $f:ident ),* $(,)?) => { $(
        #[kani::proof]
        fn $h() {
            let x: f32 = kani::any();
            kani::cover!(x.is_nan());
            kani::cover!(x == f32::INFINITY);
            kani::cover!(x < 0.0);
            let _ = $f(x);
        }
    )* };
}
// C13: finite input in [0,1] gives a finite output
macro_rules! finite01 {
    ($( $h:ident = $f:ident ),* $(,)?) => { $(
        #[kani::proof]
        fn $h() {
            let x: f32 = kani::any();
            kani::assume(x >= 0.0 && x <= 1.0);
            kani::cover!(x == 0.0);
            kani::cover!(x == 1.0);
            assert!($f(x).is_finite());
        }
    )* };
}
finite01!(
    finite_log100_oetf = log100_oetf, finite_log100_inverse_oetf = log100_inverse_oetf,
    finite_log316_oetf = log316_oetf, finite_log316_inverse_oetf = log316_inverse_oetf,
    finite_rec_1886_eotf = rec_1886_eotf, finite_rec_1886_inverse_eotf = rec_1886_inverse_eotf,
    finite_rec_470m_oetf = rec_470m_oetf, finite_rec_470m_inverse_oetf = rec_470m_inverse_oetf,
    finite_rec_470bg_oetf = rec_470bg_oetf, finite_rec_470bg_inverse_oetf = rec_470bg_inverse_oetf,
    finite_rec_709_oetf = rec_709_oetf, finite_rec_709_inverse_oetf = rec_709_inverse_oetf,
    finite_xvycc_eotf = xvycc_eotf, finite_xvycc_inverse_eotf = xvycc_inverse_eotf,
    finite_srgb_eotf = srgb_eotf, finite_srgb_inverse_eotf = srgb_inverse_eotf,
    finite_st_2084_inverse_oetf = st_2084_inverse_oetf, finite_st_2084_oetf = st_2084_oetf,
    finite_arib_b67_inverse_oetf = arib_b67_inverse_oetf, finite_arib_b67_oetf = arib_b67_oetf,
);
total!(
    total_log100_oetf = log100_oetf, total_log100_inverse_oetf = log100_inverse_oetf,
    total_log316_oetf = log316_oetf, total_log316_inverse_oetf = log316_inverse_oetf,
    total_rec_1886_eotf = rec_1886_eotf, total_rec_1886_inverse_eotf = rec_1886_inverse_eotf,
    total_rec_470m_oetf = rec_470m_oetf, total_rec_470m_inverse_oetf = rec_470m_inverse_oetf,
    total_rec_470bg_oetf = rec_470bg_oetf, total_rec_470bg_inverse_oetf = rec_470bg_inverse_oetf,
    total_rec_709_oetf = rec_709_oetf, total_rec_709_inverse_oetf = rec_709_inverse_oetf,
    total_xvycc_eotf = xvycc_eotf, total_xvycc_inverse_eotf = xvycc_inverse_eotf,
    total_srgb_eotf = srgb_eotf, total_srgb_inverse_eotf = srgb_inverse_eotf,
    total_st_2084_inverse_oetf = st_2084_inverse_oetf, total_st_2084_oetf = st_2084_oetf,
    total_arib_b67_inverse_oetf = arib_b67_inverse_oetf, total_arib_b67_oetf = arib_b67_oetf,
);

// C16 anchors: f(0) ~ 0 and f(1) ~ 1 for the curves built on the repo's own powf/expf (input-free, bit-precise)
macro_rules! anchors {
    ($( $h:ident = ($f:ident, $tol1:expr) ),* $(,)?) => { $(
        #[kani::proof]
        fn $h() {
            assert!($f(0.0f32).abs() <= 1e-6);
            assert!(($f(1.0f32) - 1.0).abs() <= $tol1);
        }
    )* };
}
anchors!(
    anchor_rec_1886_eotf = (rec_1886_eotf, 2.5e-4), anchor_rec_1886_inverse_eotf = (rec_1886_inverse_eotf, 2.5e-4),
    anchor_rec_470m_oetf = (rec_470m_oetf, 2.5e-4), anchor_rec_470m_inverse_oetf = (rec_470m_inverse_oetf, 2.5e-4),
    anchor_rec_470bg_oetf = (rec_470bg_oetf, 2.5e-4), anchor_rec_470bg_inverse_oetf = (rec_470bg_inverse_oetf, 2.5e-4),
    anchor_xvycc_eotf = (xvycc_eotf, 2.5e-4), anchor_xvycc_inverse_eotf = (xvycc_inverse_eotf, 2.5e-4),
    anchor_srgb_eotf = (srgb_eotf, 2.5e-4), anchor_srgb_inverse_eotf = (srgb_inverse_eotf, 2.5e-4),
    anchor_st_2084_inverse_oetf = (st_2084_inverse_oetf, 2.5e-4), anchor_st_2084_oetf = (st_2084_oetf, 5.7e-4),
);

// C07 (bounded): the from_raw_parts_mut flattening of Vec<[f32;3]> stays inside the allocation (Kani pointer
// checks on the raw-pointer reads/writes) and is pointwise, for lengths 0..=3.  Content is concrete (the bounds of
// the flatten depend only on the length); symbolic content made the Vec model intractable (measured > 15 min).
fn flatten_len(n: usize) {
    let src: [[f32; 3]; 3] = [[0.25, 0.5, 0.125], [0.0, 0.375, 0.0625], [0.4375, 0.03125, 0.5]];
    let mut v: Vec<[f32; 3]> = Vec::with_capacity(n);
    let mut i = 0;
    while i < n { v.push(src[i]); i += 1; }
    let out = image_arib_b67_inverse_oetf(v);
    assert!(out.len() == n);
    let mut i = 0;
    while i < n {
        let mut c = 0;
        while c < 3 { assert!(out[i][c].to_bits() == arib_b67_inverse_oetf(src[i][c]).to_bits()); c += 1; }
        i += 1;
    }
}
#[kani::proof] #[kani::unwind(13)] fn flatten_len_0() { flatten_len(0); }
#[kani::proof] #[kani::unwind(13)] fn flatten_len_1() { flatten_len(1); }
#[kani::proof] #[kani::unwind(13)] fn flatten_len_2() { flatten_len(2); }
#[kani::proof] #[kani::unwind(13)] fn flatten_len_3() { flatten_len(3); }

// C10 (bounded): gamma -> linear -> gamma on the 10-bit code grid, x = c/1023
macro_rules! grid10 {
    ($( $h:ident = ($lin:ident, $gam:ident, $tol:expr) ),* $(,)?) => { $(
        #[kani::proof]
        fn $h() {
            let c: u16 = kani::any();
            kani::assume(c <= 1023);
            let x = c as f32 / 1023.0;
            kani::cover!(c == 0);
            kani::cover!(c == 1023);
            let y = $gam($lin(x));
            assert!((y - x).abs() < $tol);
        }
    )* };
}
grid10!(
    grid10_bt1886 = (rec_1886_eotf, rec_1886_inverse_eotf, 2.5e-4),
    grid10_bt470m = (rec_470m_oetf, rec_470m_inverse_oetf, 2.5e-4),
    grid10_bt470bg = (rec_470bg_oetf, rec_470bg_inverse_oetf, 2.5e-4),
    grid10_srgb = (srgb_eotf, srgb_inverse_eotf, 2.5e-4),
    grid10_xvycc = (xvycc_eotf, xvycc_inverse_eotf, 2.5e-4),
    grid10_pq = (st_2084_inverse_oetf, st_2084_oetf, 5.7e-4),
);
