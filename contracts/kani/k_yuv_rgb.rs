// Kani harnesses for the scalar code<->float kernels of src/yuv_rgb.rs (child module of `yuv_rgb`:
// sees the private to_f32_*/from_f32_*/get_scale_offset/pixel_range/pixel_offset).
// Loop-free, every input symbolic over its full domain => complete bit-precise proofs.
use super::*;

// ---- oracle side: H.273 ranges/black levels written from the property statement (not from the code) ----
fn ref_range(bd: u8, full: bool, chroma: bool) -> f64 {
    let k = (1u32 << (bd - 8)) as f64;
    if full { ((1u32 << bd) - 1) as f64 } else if chroma { 224.0 * k } else { 219.0 * k }
}
fn ref_black(bd: u8, full: bool, chroma: bool) -> f64 {
    let k = (1u32 << (bd - 8)) as f64;
    if chroma { (1u32 << (bd - 1)) as f64 } else if full { 0.0 } else { 16.0 * k }
}
fn maxcode(bd: u8) -> u16 { ((1u32 << bd) - 1) as u16 }
fn fclamp(x: f64, lo: f64, hi: f64) -> f64 { if x < lo { lo } else if x > hi { hi } else { x } }

// ---------------------------------------------------------------- C01: normalisation of every code
// |to_f32(c) - clamp((c-black)/range)| <= 1e-6, checked division-free in f64 (operands exact in f64).
fn norm_luma<T: Pixel>(bd: u8, full: bool) {
    let c: u16 = kani::any();
    kani::assume(c <= maxcode(bd));
    let (s, o) = get_scale_offset::<true>(bd, full, false);
    let r = to_f32_luma(T::cast_from(c), s, o) as f64;
    let range = ref_range(bd, full, false);
    let num = fclamp(c as f64 - ref_black(bd, full, false), 0.0, range);
    kani::cover!(c == 0);
    kani::cover!(c == maxcode(bd));
    assert!((r * range - num).abs() <= 1.2e-7 * range);
    assert!(r >= 0.0 && r <= 1.0);
}
fn norm_chroma<T: Pixel>(bd: u8, full: bool) {
    let c: u16 = kani::any();
    kani::assume(c <= maxcode(bd));
    let (s, o) = get_scale_offset::<true>(bd, full, true);
    let r = to_f32_chroma(T::cast_from(c), s, o) as f64;
    let range = ref_range(bd, full, true);
    let num = fclamp(c as f64 - ref_black(bd, full, true), -0.5 * range, 0.5 * range);
    kani::cover!(c == 0);
    kani::cover!(c == maxcode(bd));
    assert!((r * range - num).abs() <= 1.2e-7 * range);
    assert!(r >= -0.5 && r <= 0.5);
}

// ---------------------------------------------------------------- C02: quantiser = nearest H.273 code
// for every f32 v in [-2,2] (superset of what RGB in [-0.5,1.5]^3 can produce):
//   |code - clamp(range*v + black, 0, max)| <= 0.5 + 4e-7*2^n   (ideal computed exactly in f64; the remaining 6e-7*2^n of the
//   property's 1e-6*2^n slack is the f32 error of the 3x3 product feeding v: Verus U-round, lemma_encode_budget)
fn quant_luma<T: Pixel>(bd: u8, full: bool) {
    let v: f32 = kani::any();
    kani::assume(v >= -2.0 && v <= 2.0);
    let (s, o) = get_scale_offset::<false>(bd, full, false);
    let code: T = from_f32_luma(v, s, o, bd);
    let code = u16::cast_from(code) as f64;
    let ideal = ref_range(bd, full, false) * (v as f64) + ref_black(bd, full, false);
    let ideal = fclamp(ideal, 0.0, maxcode(bd) as f64);
    kani::cover!(v < 0.0);
    kani::cover!(v > 1.0);
    assert!((code - ideal).abs() <= 0.5 + 4e-7 * ((1u32 << bd) as f64));
}
fn quant_chroma<T: Pixel>(bd: u8, full: bool) {
    let v: f32 = kani::any();
    kani::assume(v >= -2.0 && v <= 2.0);
    let (s, o) = get_scale_offset::<false>(bd, full, true);
    let code: T = from_f32_chroma(v, s, o, bd, full);
    let code = u16::cast_from(code) as f64;
    let ideal = ref_range(bd, full, true) * (v as f64) + ref_black(bd, full, true);
    let ideal = fclamp(ideal, 0.0, maxcode(bd) as f64);
    kani::cover!(v == -0.5);
    kani::cover!(v > 0.5);
    assert!((code - ideal).abs() <= 0.5 + 4e-7 * ((1u32 << bd) as f64));
}

// ---------------------------------------------------------------- C13: valid codes for EVERY f32 bit pattern
fn codes_valid<T: Pixel>(bd: u8, full: bool) {
    let v: f32 = kani::any();
    let (s, o) = get_scale_offset::<false>(bd, full, false);
    let (cs, co) = get_scale_offset::<false>(bd, full, true);
    kani::cover!(v.is_nan());
    kani::cover!(v == f32::INFINITY);
    kani::cover!(v == f32::NEG_INFINITY);
    let y: T = from_f32_luma(v, s, o, bd);
    let c: T = from_f32_chroma(v, cs, co, bd, full);
    assert!(u16::cast_from(y) <= maxcode(bd));
    assert!(u16::cast_from(c) <= maxcode(bd));
}

// ---------------------------------------------------------------- C08: code -> float -> code is the identity
fn rt_luma<T: Pixel>(bd: u8, full: bool) {
    let c: u16 = kani::any();
    kani::assume(c <= maxcode(bd));
    let (s, o) = get_scale_offset::<true>(bd, full, false);
    let (s2, o2) = get_scale_offset::<false>(bd, full, false);
    let back: T = from_f32_luma(to_f32_luma(T::cast_from(c), s, o), s2, o2, bd);
    let k = 1u16 << (bd - 8);
    let expect = if full { c } else { clamp(c, 16 * k, 235 * k) };
    kani::cover!(c < 16 * k);
    kani::cover!(c > 235 * k || full);
    assert!(u16::cast_from(back) == expect);
}
fn rt_chroma<T: Pixel>(bd: u8, full: bool) {
    let c: u16 = kani::any();
    kani::assume(c <= maxcode(bd));
    let (s, o) = get_scale_offset::<true>(bd, full, true);
    let (s2, o2) = get_scale_offset::<false>(bd, full, true);
    let back: T = from_f32_chroma(to_f32_chroma(T::cast_from(c), s, o), s2, o2, bd, full);
    let back = u16::cast_from(back);
    let k = 1u16 << (bd - 8);
    kani::cover!(c == 0);
    kani::cover!(c == maxcode(bd));
    if full {
        // the only tolerated deviation: full-range chroma code 0 may come back as 1
        assert!(back == c || (c == 0 && back == 1));
    } else {
        assert!(back == clamp(c, 16 * k, 240 * k));
    }
}

// ---------------------------------------------------------------- C16: anchors (input-free, exact)
fn anchors<T: Pixel>(bd: u8, full: bool) {
    let (s, o) = get_scale_offset::<true>(bd, full, false);
    let (cs, co) = get_scale_offset::<true>(bd, full, true);
    let k = 1u32 << (bd - 8);
    let black = if full { 0 } else { 16 * k } as u16;
    let white = if full { (1u32 << bd) - 1 } else { 235 * k } as u16;
    let mid = (1u32 << (bd - 1)) as u16;
    assert!(to_f32_chroma(T::cast_from(mid), cs, co) == 0.0);
    assert!(to_f32_luma(T::cast_from(black), s, o) == 0.0);
    assert!((to_f32_luma(T::cast_from(white), s, o) - 1.0).abs() <= 1e-6);
}

macro_rules! per_depth {
    ($f:ident, $t:ty, $( $name:ident = ($bd:expr, $full:expr) ),* $(,)?) => {
        $( #[kani::proof] fn $name() { $f::<$t>($bd, $full); } )*
    };
}
// (no `paste` crate offline: names are spelled out)
per_depth!(norm_luma, u16, norm_luma_u16_b08_lim = (8, false), norm_luma_u16_b08_full = (8, true), norm_luma_u16_b09_lim = (9, false), norm_luma_u16_b09_full = (9, true),
    norm_luma_u16_b10_lim = (10, false), norm_luma_u16_b10_full = (10, true), norm_luma_u16_b11_lim = (11, false), norm_luma_u16_b11_full = (11, true),
    norm_luma_u16_b12_lim = (12, false), norm_luma_u16_b12_full = (12, true), norm_luma_u16_b13_lim = (13, false), norm_luma_u16_b13_full = (13, true),
    norm_luma_u16_b14_lim = (14, false), norm_luma_u16_b14_full = (14, true), norm_luma_u16_b15_lim = (15, false), norm_luma_u16_b15_full = (15, true),
    norm_luma_u16_b16_lim = (16, false), norm_luma_u16_b16_full = (16, true));
per_depth!(norm_luma, u8, norm_luma_u8_b08_lim = (8, false), norm_luma_u8_b08_full = (8, true));
per_depth!(norm_chroma, u16, norm_chroma_u16_b08_lim = (8, false), norm_chroma_u16_b08_full = (8, true), norm_chroma_u16_b09_lim = (9, false), norm_chroma_u16_b09_full = (9, true),
    norm_chroma_u16_b10_lim = (10, false), norm_chroma_u16_b10_full = (10, true), norm_chroma_u16_b11_lim = (11, false), norm_chroma_u16_b11_full = (11, true),
    norm_chroma_u16_b12_lim = (12, false), norm_chroma_u16_b12_full = (12, true), norm_chroma_u16_b13_lim = (13, false), norm_chroma_u16_b13_full = (13, true),
    norm_chroma_u16_b14_lim = (14, false), norm_chroma_u16_b14_full = (14, true), norm_chroma_u16_b15_lim = (15, false), norm_chroma_u16_b15_full = (15, true),
    norm_chroma_u16_b16_lim = (16, false), norm_chroma_u16_b16_full = (16, true));
per_depth!(norm_chroma, u8, norm_chroma_u8_b08_lim = (8, false), norm_chroma_u8_b08_full = (8, true));

per_depth!(quant_luma, u16, quant_luma_u16_b08_lim = (8, false), quant_luma_u16_b08_full = (8, true), quant_luma_u16_b09_lim = (9, false), quant_luma_u16_b09_full = (9, true),
    quant_luma_u16_b10_lim = (10, false), quant_luma_u16_b10_full = (10, true), quant_luma_u16_b11_lim = (11, false), quant_luma_u16_b11_full = (11, true),
    quant_luma_u16_b12_lim = (12, false), quant_luma_u16_b12_full = (12, true), quant_luma_u16_b13_lim = (13, false), quant_luma_u16_b13_full = (13, true),
    quant_luma_u16_b14_lim = (14, false), quant_luma_u16_b14_full = (14, true), quant_luma_u16_b15_lim = (15, false), quant_luma_u16_b15_full = (15, true),
    quant_luma_u16_b16_lim = (16, false), quant_luma_u16_b16_full = (16, true));
per_depth!(quant_luma, u8, quant_luma_u8_b08_lim = (8, false), quant_luma_u8_b08_full = (8, true));
per_depth!(quant_chroma, u16, quant_chroma_u16_b08_lim = (8, false), quant_chroma_u16_b08_full = (8, true), quant_chroma_u16_b09_lim = (9, false), quant_chroma_u16_b09_full = (9, true),
    quant_chroma_u16_b10_lim = (10, false), quant_chroma_u16_b10_full = (10, true), quant_chroma_u16_b11_lim = (11, false), quant_chroma_u16_b11_full = (11, true),
    quant_chroma_u16_b12_lim = (12, false), quant_chroma_u16_b12_full = (12, true), quant_chroma_u16_b13_lim = (13, false), quant_chroma_u16_b13_full = (13, true),
    quant_chroma_u16_b14_lim = (14, false), quant_chroma_u16_b14_full = (14, true), quant_chroma_u16_b15_lim = (15, false), quant_chroma_u16_b15_full = (15, true),
    quant_chroma_u16_b16_lim = (16, false), quant_chroma_u16_b16_full = (16, true));
per_depth!(quant_chroma, u8, quant_chroma_u8_b08_lim = (8, false), quant_chroma_u8_b08_full = (8, true));

per_depth!(codes_valid, u16, codes_valid_u16_b08_lim = (8, false), codes_valid_u16_b08_full = (8, true), codes_valid_u16_b09_lim = (9, false), codes_valid_u16_b09_full = (9, true),
    codes_valid_u16_b10_lim = (10, false), codes_valid_u16_b10_full = (10, true), codes_valid_u16_b11_lim = (11, false), codes_valid_u16_b11_full = (11, true),
    codes_valid_u16_b12_lim = (12, false), codes_valid_u16_b12_full = (12, true), codes_valid_u16_b13_lim = (13, false), codes_valid_u16_b13_full = (13, true),
    codes_valid_u16_b14_lim = (14, false), codes_valid_u16_b14_full = (14, true), codes_valid_u16_b15_lim = (15, false), codes_valid_u16_b15_full = (15, true),
    codes_valid_u16_b16_lim = (16, false), codes_valid_u16_b16_full = (16, true));
per_depth!(codes_valid, u8, codes_valid_u8_b08_lim = (8, false), codes_valid_u8_b08_full = (8, true));

per_depth!(rt_luma, u16, rt_luma_u16_b08_lim = (8, false), rt_luma_u16_b08_full = (8, true), rt_luma_u16_b09_lim = (9, false), rt_luma_u16_b09_full = (9, true),
    rt_luma_u16_b10_lim = (10, false), rt_luma_u16_b10_full = (10, true), rt_luma_u16_b11_lim = (11, false), rt_luma_u16_b11_full = (11, true),
    rt_luma_u16_b12_lim = (12, false), rt_luma_u16_b12_full = (12, true), rt_luma_u16_b13_lim = (13, false), rt_luma_u16_b13_full = (13, true),
    rt_luma_u16_b14_lim = (14, false), rt_luma_u16_b14_full = (14, true), rt_luma_u16_b15_lim = (15, false), rt_luma_u16_b15_full = (15, true),
    rt_luma_u16_b16_lim = (16, false), rt_luma_u16_b16_full = (16, true));
per_depth!(rt_luma, u8, rt_luma_u8_b08_lim = (8, false), rt_luma_u8_b08_full = (8, true));
per_depth!(rt_chroma, u16, rt_chroma_u16_b08_lim = (8, false), rt_chroma_u16_b08_full = (8, true), rt_chroma_u16_b09_lim = (9, false), rt_chroma_u16_b09_full = (9, true),
    rt_chroma_u16_b10_lim = (10, false), rt_chroma_u16_b10_full = (10, true), rt_chroma_u16_b11_lim = (11, false), rt_chroma_u16_b11_full = (11, true),
    rt_chroma_u16_b12_lim = (12, false), rt_chroma_u16_b12_full = (12, true), rt_chroma_u16_b13_lim = (13, false), rt_chroma_u16_b13_full = (13, true),
    rt_chroma_u16_b14_lim = (14, false), rt_chroma_u16_b14_full = (14, true), rt_chroma_u16_b15_lim = (15, false), rt_chroma_u16_b15_full = (15, true),
    rt_chroma_u16_b16_lim = (16, false), rt_chroma_u16_b16_full = (16, true));
per_depth!(rt_chroma, u8, rt_chroma_u8_b08_lim = (8, false), rt_chroma_u8_b08_full = (8, true));

per_depth!(anchors, u16, anchors_u16_b08_lim = (8, false), anchors_u16_b08_full = (8, true), anchors_u16_b09_lim = (9, false), anchors_u16_b09_full = (9, true),
    anchors_u16_b10_lim = (10, false), anchors_u16_b10_full = (10, true), anchors_u16_b11_lim = (11, false), anchors_u16_b11_full = (11, true),
    anchors_u16_b12_lim = (12, false), anchors_u16_b12_full = (12, true), anchors_u16_b13_lim = (13, false), anchors_u16_b13_full = (13, true),
    anchors_u16_b14_lim = (14, false), anchors_u16_b14_full = (14, true), anchors_u16_b15_lim = (15, false), anchors_u16_b15_full = (15, true),
    anchors_u16_b16_lim = (16, false), anchors_u16_b16_full = (16, true));
per_depth!(anchors, u8, anchors_u8_b08_lim = (8, false), anchors_u8_b08_full = (8, true));

// ---------------------------------------------------------------- C08, all triples: the quantiser absorbs a perturbation
// for every code c and every f32 perturbation |e| <= 2.5e-6 of its normalised value, the code comes back exactly
// (2.5e-6 bounds the f32 error of inv.mul_arr followed by fwd.mul_arr: Verus U-round, lemma_roundtrip_budget)
fn rt_pert_luma<T: Pixel>(bd: u8, full: bool) {
    let c: u16 = kani::any();
    kani::assume(c <= maxcode(bd));
    let e: f32 = kani::any();
    kani::assume(e >= -2.5e-6 && e <= 2.5e-6);
    let (s, o) = get_scale_offset::<true>(bd, full, false);
    let (s2, o2) = get_scale_offset::<false>(bd, full, false);
    let v = to_f32_luma(T::cast_from(c), s, o) + e;
    let back: T = from_f32_luma(v, s2, o2, bd);
    let k = 1u16 << (bd - 8);
    let expect = if full { c } else { clamp(c, 16 * k, 235 * k) };
    kani::cover!(e < 0.0); kani::cover!(e > 0.0);
    assert!(u16::cast_from(back) == expect);
}
fn rt_pert_chroma<T: Pixel>(bd: u8, full: bool) {
    let c: u16 = kani::any();
    kani::assume(c <= maxcode(bd));
    let e: f32 = kani::any();
    kani::assume(e >= -2.5e-6 && e <= 2.5e-6);
    let (s, o) = get_scale_offset::<true>(bd, full, true);
    let (s2, o2) = get_scale_offset::<false>(bd, full, true);
    let v = to_f32_chroma(T::cast_from(c), s, o) + e;
    let back: T = from_f32_chroma(v, s2, o2, bd, full);
    let back = u16::cast_from(back);
    let k = 1u16 << (bd - 8);
    kani::cover!(e < 0.0); kani::cover!(e > 0.0);
    if full { assert!(back == c || (c == 0 && back == 1)); } else { assert!(back == clamp(c, 16 * k, 240 * k)); }
}
per_depth!(rt_pert_luma, u16, rt_pert_luma_u16_b08_lim = (8, false), rt_pert_luma_u16_b08_full = (8, true), rt_pert_luma_u16_b09_lim = (9, false), rt_pert_luma_u16_b09_full = (9, true),
    rt_pert_luma_u16_b10_lim = (10, false), rt_pert_luma_u16_b10_full = (10, true), rt_pert_luma_u16_b11_lim = (11, false), rt_pert_luma_u16_b11_full = (11, true),
    rt_pert_luma_u16_b12_lim = (12, false), rt_pert_luma_u16_b12_full = (12, true), rt_pert_luma_u16_b13_lim = (13, false), rt_pert_luma_u16_b13_full = (13, true),
    rt_pert_luma_u16_b14_lim = (14, false), rt_pert_luma_u16_b14_full = (14, true), rt_pert_luma_u16_b15_lim = (15, false), rt_pert_luma_u16_b15_full = (15, true),
    rt_pert_luma_u16_b16_lim = (16, false), rt_pert_luma_u16_b16_full = (16, true));
per_depth!(rt_pert_luma, u8, rt_pert_luma_u8_b08_lim = (8, false), rt_pert_luma_u8_b08_full = (8, true));
per_depth!(rt_pert_chroma, u16, rt_pert_chroma_u16_b08_lim = (8, false), rt_pert_chroma_u16_b08_full = (8, true), rt_pert_chroma_u16_b09_lim = (9, false), rt_pert_chroma_u16_b09_full = (9, true),
    rt_pert_chroma_u16_b10_lim = (10, false), rt_pert_chroma_u16_b10_full = (10, true), rt_pert_chroma_u16_b11_lim = (11, false), rt_pert_chroma_u16_b11_full = (11, true),
    rt_pert_chroma_u16_b12_lim = (12, false), rt_pert_chroma_u16_b12_full = (12, true), rt_pert_chroma_u16_b13_lim = (13, false), rt_pert_chroma_u16_b13_full = (13, true),
    rt_pert_chroma_u16_b14_lim = (14, false), rt_pert_chroma_u16_b14_full = (14, true), rt_pert_chroma_u16_b15_lim = (15, false), rt_pert_chroma_u16_b15_full = (15, true),
    rt_pert_chroma_u16_b16_lim = (16, false), rt_pert_chroma_u16_b16_full = (16, true));
per_depth!(rt_pert_chroma, u8, rt_pert_chroma_u8_b08_lim = (8, false), rt_pert_chroma_u8_b08_full = (8, true));
