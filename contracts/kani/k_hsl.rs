// Kani harnesses for src/hsl.rs (child module of `hsl`: sees the private lrgb_to_hsl).
// Three f32 inputs symbolic over [0,1]^3, loop-free => complete bit-precise proofs.
use super::*;

fn unit_cube() -> [f32; 3] {
    let p: [f32; 3] = [kani::any(), kani::any(), kani::any()];
    kani::assume(p[0] >= 0.0 && p[0] <= 1.0 && p[1] >= 0.0 && p[1] <= 1.0 && p[2] >= 0.0 && p[2] <= 1.0);
    p
}
fn max3(p: [f32; 3]) -> f64 { let (a, b, c) = (p[0] as f64, p[1] as f64, p[2] as f64); let m = if a > b { a } else { b }; if m > c { m } else { c } }
fn min3(p: [f32; 3]) -> f64 { let (a, b, c) = (p[0] as f64, p[1] as f64, p[2] as f64); let m = if a < b { a } else { b }; if m < c { m } else { c } }

// C17: component ranges  H in [0,360), S in [0,1], L in [0,1]
#[kani::proof]
fn hsl_hue_nonneg() { let p = unit_cube(); kani::cover!(p[0] > p[2] && p[2] > p[1]); assert!(lrgb_to_hsl(p)[0] >= 0.0); }
#[kani::proof]
fn hsl_hue_below_360() { let p = unit_cube(); kani::cover!(p[0] > p[2] && p[2] > p[1]); assert!(lrgb_to_hsl(p)[0] < 360.0); }
#[kani::proof]
fn hsl_sat_range() { let p = unit_cube(); kani::cover!(p[0] != p[1]); let s = lrgb_to_hsl(p)[1]; assert!(s >= 0.0); assert!(s <= 1.0); }
#[kani::proof]
fn hsl_light_range() { let p = unit_cube(); let l = lrgb_to_hsl(p)[2]; assert!(l >= 0.0 && l <= 1.0); }

// C17: hexcone definition.  L = (max+min)/2 within 1e-6
#[kani::proof]
fn hsl_light_def() {
    let p = unit_cube();
    let l = lrgb_to_hsl(p)[2] as f64;
    assert!((l - (max3(p) + min3(p)) / 2.0).abs() <= 1e-6);
}
// S = (max-min)/(1-|2L-1|) within 1e-4 when 0.01 <= L <= 0.99  (checked division-free)
#[kani::proof]
fn hsl_sat_def() {
    let p = unit_cube();
    let l = (max3(p) + min3(p)) / 2.0;
    kani::assume(l >= 0.01 && l <= 0.99);
    let s = lrgb_to_hsl(p)[1] as f64;
    let den = 1.0 - (2.0 * l - 1.0).abs();
    kani::cover!(max3(p) - min3(p) > 0.5);
    assert!((s * den - (max3(p) - min3(p))).abs() <= 1e-4 * den);
}
// hue by the sextant of the maximum channel, within 0.01 degrees (circular) when max-min >= 0.01
fn hue_def(which: usize) {
    let p = unit_cube();
    let (mx, mn) = (max3(p), min3(p));
    let c = mx - mn;
    kani::assume(c >= 0.01);
    let (r, g, b) = (p[0] as f64, p[1] as f64, p[2] as f64);
    kani::assume(match which { 0 => r == mx, 1 => g == mx && r != mx, _ => b == mx && r != mx && g != mx });
    // reference hue * c  (division-free): h_ref = 60 * t / c  with t as below, taken modulo 360
    let t = match which { 0 => g - b, 1 => 2.0 * c + (b - r), _ => 4.0 * c + (r - g) };
    let t = if t < 0.0 { t + 6.0 * c } else { t };
    let h = lrgb_to_hsl(p)[0] as f64;
    kani::cover!(which != 0 || g < b);
    let d = (h * c - 60.0 * t).abs();
    // circular distance: either close, or close after a full turn
    assert!(d <= 0.01 * c || (360.0 * c - d).abs() <= 0.01 * c);
}
#[kani::proof] fn hsl_hue_def_red() { hue_def(0); }
#[kani::proof] fn hsl_hue_def_green() { hue_def(1); }
#[kani::proof] fn hsl_hue_def_blue() { hue_def(2); }

// C16: grey has saturation 0, hue 0 and L equal to the grey level (exactly)
#[kani::proof]
fn hsl_grey() {
    let g: f32 = kani::any();
    kani::assume(g >= 0.0 && g <= 1.0);
    kani::cover!(g == 0.0); kani::cover!(g == 1.0);
    let o = lrgb_to_hsl([g, g, g]);
    assert!(o[0] == 0.0 && o[1] == 0.0 && o[2] == g);
}
// C13: total on every f32 triple (NaN, inf, ...)
#[kani::proof]
fn hsl_total() {
    let p: [f32; 3] = [kani::any(), kani::any(), kani::any()];
    kani::cover!(p[0].is_nan()); kani::cover!(p[1] == f32::INFINITY);
    let _ = lrgb_to_hsl(p);
}
// C13: finite in [0,1]^3 gives finite out
#[kani::proof]
fn hsl_finite() { let p = unit_cube(); let o = lrgb_to_hsl(p); assert!(o[0].is_finite() && o[1].is_finite() && o[2].is_finite()); }
