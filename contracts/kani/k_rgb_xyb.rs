// Kani harnesses for src/rgb_xyb.rs (child module: sees the private kernels and constants).
use super::*;

// C13: scalar kernels total on every f32 triple
#[kani::proof]
fn opsin_total() {
    let p: [f32; 3] = [kani::any(), kani::any(), kani::any()];
    kani::cover!(p[0].is_nan()); kani::cover!(p[1] == f32::INFINITY);
    let m = opsin_absorbance(&p);
    let _ = mixed_to_xyb(&m);
}
// C13: finite in [0,1]^3 -> finite mixes >= bias > 0 (so cbrtf gets a normal positive argument)
#[kani::proof]
fn opsin_unit_cube_positive() {
    let p: [f32; 3] = [kani::any(), kani::any(), kani::any()];
    kani::assume(p[0] >= 0.0 && p[0] <= 1.0 && p[1] >= 0.0 && p[1] <= 1.0 && p[2] >= 0.0 && p[2] <= 1.0);
    let m = opsin_absorbance(&p);
    assert!(m[0].is_finite() && m[1].is_finite() && m[2].is_finite());
    assert!(m[0] >= 0.003 && m[1] >= 0.003 && m[2] >= 0.003);
    assert!(m[0] <= 1.01 && m[1] <= 1.01 && m[2] <= 1.01);
}
// C04/C11 (bounded: one pixel, Vec of length 1): the per-image function is the composition
//   mixed_to_xyb( cbrtf(max(0, opsin_absorbance(p))) - cbrtf(bias) )   bit for bit (glue: clamp at 0, bias subtraction)
#[kani::proof]
#[kani::unwind(5)]
fn xyb_glue_one_pixel() {
    let p: [f32; 3] = [kani::any(), kani::any(), kani::any()];
    kani::assume(p[0] >= -1.0 && p[0] <= 4.0 && p[1] >= -1.0 && p[1] <= 4.0 && p[2] >= -1.0 && p[2] <= 4.0);
    let out = linear_rgb_to_xyb(vec![p]);
    assert!(out.len() == 1);
    let mut m = opsin_absorbance(&p);
    let mut i = 0;
    while i < 3 {
        if m[i] < 0.0 { m[i] = 0.0; }
        m[i] = cbrtf(m[i]) + (-cbrtf(OPSIN_ABSORBANCE_BIAS[i]));
        i += 1;
    }
    let want = mixed_to_xyb(&m);
    kani::cover!(p[0] < 0.0);
    assert!(out[0][0].to_bits() == want[0].to_bits() && out[0][1].to_bits() == want[1].to_bits() && out[0][2].to_bits() == want[2].to_bits());
}
// C05/C11 (bounded: one pixel): inverse direction total and finite on XYB of the unit cube
#[kani::proof]
#[kani::unwind(5)]
fn xyb_inverse_one_pixel_total() {
    let p: [f32; 3] = [kani::any(), kani::any(), kani::any()];
    kani::cover!(p[0].is_nan());
    let out = xyb_to_linear_rgb(vec![p]);
    assert!(out.len() == 1);
}

// C04 (BOUNDED: structure of the whole forward path against the STATEMENT's definition on the 8^3 grid {-1,-0.6,-0.25,0,0.3,0.5,1,4}^3,
// one-pixel image; fully symbolic pixels made the f64 oracle intractable, > 25 min):
// cbrtf is replaced (kani::stub) by a cheap smooth function g, and the result must equal the statement's formula with the
// same g in place of the cube root, computed in f64 from libjxl's digits:
//     X=(L-M)/2, Y=(L+M)/2, B=S,  (L,M,S) = g(max(0, A*rgb+b)) - g(b).
// This decides where the clamp, the bias and the X/Y combination sit (for all pixels, symbolic) without paying for the bit-level
// cube root (6 symbolic cbrtf: > 25 min); the cube root itself is C18's subject. g is smooth, so there is no singular point and the
// tolerance is a plain rounding budget: mix error <= 3e-6 (f32 fma chain + f32 constants), |g'| <= 4.3, g evaluated in f32.
fn glue_g(x: f32) -> f32 { x * x * 0.5 + x * 0.25 + 0.125 }
fn glue_g64(x: f64) -> f64 { x * x * 0.5 + x * 0.25 + 0.125 }
#[kani::proof]
#[kani::unwind(5)]
#[kani::stub(cbrtf, glue_g)]
fn xyb_definition_structure_stubbed_cbrt() {
    const T: [f32; 8] = [-1.0, -0.6, -0.25, 0.0, 0.3, 0.5, 1.0, 4.0];
    let k: [u8; 3] = [kani::any(), kani::any(), kani::any()];
    kani::assume(k[0] < 8 && k[1] < 8 && k[2] < 8);
    let p: [f32; 3] = [T[k[0] as usize], T[k[1] as usize], T[k[2] as usize]];
    kani::cover!(p[0] < 0.0 && p[1] < 0.0 && p[2] < 0.0);
    kani::cover!(p[0] > 0.0 && p[2] < -0.5);
    let out = linear_rgb_to_xyb(vec![p]);
    assert!(out.len() == 1);
    const A: [[f64; 3]; 3] = [[0.30, 0.622, 0.078], [0.23, 0.692, 0.078],
                              [0.24342268924547819, 0.20476744424496821, 0.55180986650955360]];
    const B: f64 = 0.0037930732552754493;
    let mut l = [0f64; 3];
    let mut i = 0;
    while i < 3 {
        let mix = A[i][0] * p[0] as f64 + A[i][1] * p[1] as f64 + A[i][2] * p[2] as f64 + B;
        let mix = if mix < 0.0 { 0.0 } else { mix };
        l[i] = glue_g64(mix) - glue_g64(B);
        i += 1;
    }
    let want = [(l[0] - l[1]) / 2.0, (l[0] + l[1]) / 2.0, l[2]];
    let tol = 5e-5;
    assert!((out[0][0] as f64 - want[0]).abs() <= tol);
    assert!((out[0][1] as f64 - want[1]).abs() <= tol);
    assert!((out[0][2] as f64 - want[2]).abs() <= tol);
}

// (measured: the bit-for-bit glue query of xyb_glue_one_pixel does not finish in 20 min even with cbrtf stubbed - equality of two
//  structurally equal fma circuits over symbolic f32 is hard for SAT - so it is not registered anywhere.)

// C05 (BOUNDED: two fixed pixels, real cbrtf): forward then inverse returns the pixel within 5e-5 and keeps the length.
// Backs the exact-real round-trip lemma of U-xyb with the real f32 code, and still decides these two pixels when the
// inverse loop has been restructured (the Verus unit attaches its invariants to the loop statements).
#[kani::proof]
#[kani::unwind(5)]
fn xyb_round_trip_fixed_2px() {
    let src: [[f32; 3]; 2] = [[0.25, 0.5, 0.75], [1.0, 0.0, 0.1]];
    let back = xyb_to_linear_rgb(linear_rgb_to_xyb(src.to_vec()));
    assert!(back.len() == 2);
    let mut i = 0;
    while i < 2 {
        let mut c = 0;
        while c < 3 { assert!((back[i][c] - src[i][c]).abs() <= 5e-5); c += 1; }
        i += 1;
    }
}
