// Kani harnesses for src/rgb_xyb.rs (child module: sees the private kernels and constants).
use super::*;

// C13: scalar kernels total on every f32 triple
#[kani::proof]
fn opsin_total() {
    let p: [f32; 3] = [kani::any(), kani::any(), kani::any()];
    kani::cover!(p[0].is_nan()); kani::cover!(p[1] == f32::INFINITY);
    let m = opsin_absorbance(&p);
    let _ = mixed_to_xyb(&m);
}
// C13: finite in [0,1]^3 -> finite mixes >= bias > 0 (so cbrtf gets a normal positive argument)
#[kani::proof]
fn opsin_unit_cube_positive() {
    let p: [f32; 3] = [kani::any(), kani::any(), kani::any()];
    kani::assume(p[0] >= 0.0 && p[0] <= 1.0 && p[1] >= 0.0 && p[1] <= 1.0 && p[2] >= 0.0 && p[2] <= 1.0);
    let m = opsin_absorbance(&p);
    assert!(m[0].is_finite() && m[1].is_finite() && m[2].is_finite());
    assert!(m[0] >= 0.003 && m[1] >= 0.003 && m[2] >= 0.003);
    assert!(m[0] <= 1.01 && m[1] <= 1.01 && m[2] <= 1.01);
}
// C04/C11 (bounded: one pixel, Vec of length 1): the per-image function is the composition
//   mixed_to_xyb( cbrtf(max(0, opsin_absorbance(p))) - cbrtf(bias) )   bit for bit (glue: clamp at 0, bias subtraction)
#[kani::proof]
#[kani::unwind(5)]
fn xyb_glue_one_pixel() {
    let p: [f32; 3] = [kani::any(), kani::any(), kani::any()];
    kani::assume(p[0] >= -1.0 && p[0] <= 4.0 && p[1] >= -1.0 && p[1] <= 4.0 && p[2] >= -1.0 && p[2] <= 4.0);
    let out = linear_rgb_to_xyb(vec![p]);
    assert!(out.len() == 1);
    let mut m = opsin_absorbance(&p);
    let mut i = 0;
    while i < 3 {
        if m[i] < 0.0 { m[i] = 0.0; }
        m[i] = cbrtf(m[i]) + (-cbrtf(OPSIN_ABSORBANCE_BIAS[i]));
        i += 1;
    }
    let want = mixed_to_xyb(&m);
    kani::cover!(p[0] < 0.0);
    assert!(out[0][0].to_bits() == want[0].to_bits() && out[0][1].to_bits() == want[1].to_bits() && out[0][2].to_bits() == want[2].to_bits());
}
// C05/C11 (bounded: one pixel): inverse direction total and finite on XYB of the unit cube
#[kani::proof]
#[kani::unwind(5)]
fn xyb_inverse_one_pixel_total() {
    let p: [f32; 3] = [kani::any(), kani::any(), kani::any()];
    kani::cover!(p[0].is_nan());
    let out = xyb_to_linear_rgb(vec![p]);
    assert!(out.len() == 1);
}
