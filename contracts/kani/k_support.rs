// Kani harnesses at crate level (child module of src/lib.rs) for the metadata clauses: C15 (Unspecified resolution) and
// C14 (support/error contract), over EVERY enum value (built from a symbolic u8 through FromPrimitive) and every width/height.
// Anchor-free second opinion next to the Verus units U-planes / U-dispatch / U-color: nothing here depends on how the crate
// structures its helpers - only on YuvConfig::fix_unspecified_data (this file) and the two matrix getters (k_support_matrix.rs).
use super::*;

fn log_off() -> log::LevelFilter { log::LevelFilter::Off }

fn any_mc() -> MatrixCoefficients { let k: u8 = kani::any(); match MatrixCoefficients::from_u8(k) { Some(m) => m, None => { kani::assume(false); MatrixCoefficients::Unspecified } } }
fn any_cp() -> ColorPrimaries { let k: u8 = kani::any(); match ColorPrimaries::from_u8(k) { Some(m) => m, None => { kani::assume(false); ColorPrimaries::Unspecified } } }
fn any_tc() -> TransferCharacteristic { let k: u8 = kani::any(); match TransferCharacteristic::from_u8(k) { Some(m) => m, None => { kani::assume(false); TransferCharacteristic::Unspecified } } }

// the documented mpv heuristic, restated from the property text
fn want_matrix(w: usize, h: usize) -> MatrixCoefficients {
    if w >= 1280 || h > 576 { MatrixCoefficients::BT709 } else if h == 576 { MatrixCoefficients::BT470BG } else { MatrixCoefficients::ST170M }
}
fn want_primaries(m: MatrixCoefficients, w: usize, h: usize) -> ColorPrimaries {
    if m == MatrixCoefficients::BT2020NonConstantLuminance || m == MatrixCoefficients::BT2020ConstantLuminance { ColorPrimaries::BT2020 }
    else if m == MatrixCoefficients::BT709 || w >= 1280 || h > 576 { ColorPrimaries::BT709 }
    else if h == 576 { ColorPrimaries::BT470BG }
    else if h == 480 || h == 488 { ColorPrimaries::ST170M }
    else { ColorPrimaries::BT709 }
}

#[kani::proof]
#[kani::stub(log::max_level, log_off)]
fn unspecified_resolution_every_config_and_size() {
    let (w, h): (usize, usize) = (kani::any(), kani::any());
    let c = YuvConfig { bit_depth: kani::any(), subsampling_x: kani::any(), subsampling_y: kani::any(), full_range: kani::any(),
        matrix_coefficients: any_mc(), transfer_characteristics: any_tc(), color_primaries: any_cp() };
    kani::cover!(c.matrix_coefficients == MatrixCoefficients::Unspecified && c.color_primaries == ColorPrimaries::Unspecified);
    kani::cover!(c.color_primaries == ColorPrimaries::Unspecified && c.matrix_coefficients == MatrixCoefficients::ST170M && w >= 1280 && h == 480);
    let r = c.fix_unspecified_data(w, h);
    let m = if c.matrix_coefficients == MatrixCoefficients::Unspecified { want_matrix(w, h) } else { c.matrix_coefficients };
    let p = if c.color_primaries == ColorPrimaries::Unspecified { want_primaries(m, w, h) } else { c.color_primaries };
    let t = if c.transfer_characteristics == TransferCharacteristic::Unspecified { TransferCharacteristic::BT1886 } else { c.transfer_characteristics };
    assert!(r.matrix_coefficients == m);
    assert!(r.color_primaries == p);
    assert!(r.transfer_characteristics == t);
    assert!(r.bit_depth == c.bit_depth && r.subsampling_x == c.subsampling_x && r.subsampling_y == c.subsampling_y && r.full_range == c.full_range);
    assert!(r.matrix_coefficients != MatrixCoefficients::Unspecified && r.color_primaries != ColorPrimaries::Unspecified
        && r.transfer_characteristics != TransferCharacteristic::Unspecified);
}


// C14, single-stage pairs on EMPTY images (support does not depend on the pixels): for every transfer characteristic gamma->linear and
// linear->gamma succeed or fail together, with the same error, which names the transfer; for every primaries value the conversion to and
// from the BT.709 working space succeed or fail together with the same error, which names the primaries. No panic for any enum value.
use crate::yuv_rgb::{transform_primaries, TransferFunction};
#[kani::proof]
#[kani::unwind(2)]
fn transfer_support_symmetric_every_value() {
    let t = any_tc();
    kani::cover!(t == TransferCharacteristic::Reserved);
    kani::cover!(t == TransferCharacteristic::PerceptualQuantizer);
    let a = t.to_linear(Vec::new());
    let b = t.to_gamma(Vec::new());
    match (a, b) {
        (Ok(x), Ok(y)) => { assert!(x.is_empty() && y.is_empty()); }
        (Err(e1), Err(e2)) => {
            assert!(e1 == e2);
            assert!(matches!(e1, ConversionError::UnsupportedTransferCharacteristic | ConversionError::UnspecifiedTransferCharacteristic));
            assert!((e1 == ConversionError::UnspecifiedTransferCharacteristic) == (t == TransferCharacteristic::Unspecified));
        }
        _ => { assert!(false); }
    }
}
#[kani::proof]
#[kani::unwind(2)]
fn primaries_support_symmetric_every_value() {
    let p = any_cp();
    kani::cover!(p == ColorPrimaries::Reserved0);
    kani::cover!(p == ColorPrimaries::ST428);
    let a = transform_primaries(Vec::new(), p, ColorPrimaries::BT709);
    let b = transform_primaries(Vec::new(), ColorPrimaries::BT709, p);
    match (a, b) {
        (Ok(x), Ok(y)) => { assert!(x.is_empty() && y.is_empty()); }
        (Err(e1), Err(e2)) => {
            assert!(e1 == e2);
            assert!(matches!(e1, ConversionError::UnsupportedColorPrimaries | ConversionError::UnspecifiedColorPrimaries));
        }
        _ => { assert!(false); }
    }
}
