// Kani harnesses for src/linear_rgb.rs (hsl_to_lrgb).  CBMC models `f32 % f32` (fmodf) nondeterministically
// (measured), so only totality is decided here; the value-level clauses of HSL->RGB are not.
use super::*;
#[kani::proof]
fn hsl_to_lrgb_total() {
    let p: [f32; 3] = [kani::any(), kani::any(), kani::any()];
    kani::cover!(p[0].is_nan()); kani::cover!(p[0] >= 360.0);
    let _ = hsl_to_lrgb(p);
}
