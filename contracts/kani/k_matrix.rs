// Kani harnesses for yuvxyb-math/src/matrix.rs (child module) - anchor-free, INPUT-FREE second opinion next to the Verus unit U-matrix
// (which proves every function for all inputs under exact reals). Fixed integer-valued operands in generic position (all entries
// distinct and non-zero, nothing symmetric, det(A) = 4) on which every f32 / f64 operation is exact, so the expected values are computed
// independently in i32 from the textbook definitions and compared exactly. Catches sign / index / order slips (cofactor signs, swapped
// operands, transposed products) in both instantiations; bounded to these operands.
use super::*;

const A: [[i32; 3]; 3] = [[4, -6, 6], [5, -2, 7], [2, -1, 3]];      // det = 4
const B: [[i32; 3]; 3] = [[3, 1, -2], [-4, 5, 7], [6, -3, 2]];
const U: [i32; 3] = [2, -3, 5];
const V: [i32; 3] = [-7, 4, 1];

macro_rules! fixed {
    ($h:ident, $t:ty) => {
        #[kani::proof]
        #[kani::unwind(5)]
        fn $h() {
            let f = |x: i32| x as $t;
            let row = |r: [i32; 3]| RowVector::<$t>::new(f(r[0]), f(r[1]), f(r[2]));
            let mat = |m: [[i32; 3]; 3]| Matrix::<$t>::new(row(m[0]), row(m[1]), row(m[2]));
            let (a, b) = (mat(A), mat(B));
            // mul_mat: (A*B)[i][j] = sum_k A[i][k]*B[k][j]
            let ab = a.clone().mul_mat(b.clone()).values();
            let mut i = 0;
            while i < 3 { let mut j = 0; while j < 3 {
                let want = A[i][0] * B[0][j] + A[i][1] * B[1][j] + A[i][2] * B[2][j];
                assert!(ab[i][j] == f(want));
                j += 1; } i += 1; }
            // mul_vec / mul_arr: (A*u)[i] = sum_k A[i][k]*u[k]
            let au = a.mul_vec(&ColVector::<$t>::new(f(U[0]), f(U[1]), f(U[2]))).values();
            let au2 = a.mul_arr([f(U[0]), f(U[1]), f(U[2])]);
            let mut i = 0;
            while i < 3 { let want = A[i][0] * U[0] + A[i][1] * U[1] + A[i][2] * U[2]; assert!(au[i] == f(want) && au2[i] == f(want)); i += 1; }
            // transpose
            let at = a.clone().transpose().values();
            let mut i = 0;
            while i < 3 { let mut j = 0; while j < 3 { assert!(at[i][j] == f(A[j][i])); j += 1; } i += 1; }
            // cross, dot, scalar_div, component_mul
            let (u, v) = (row(U), row(V));
            let c = u.cross(&v).values();
            assert!(c[0] == f(U[1] * V[2] - U[2] * V[1]) && c[1] == f(U[2] * V[0] - U[0] * V[2]) && c[2] == f(U[0] * V[1] - U[1] * V[0]));
            assert!(u.dot(&v) == f(U[0] * V[0] + U[1] * V[1] + U[2] * V[2]));
            let d = u.scalar_div(f(2)).values();
            assert!(d[0] == f(U[0]) / f(2) && d[1] == f(U[1]) / f(2) && d[2] == f(U[2]) / f(2));
            let m = u.component_mul(&v).values();
            assert!(m[0] == f(U[0] * V[0]) && m[1] == f(U[1] * V[1]) && m[2] == f(U[2] * V[2]));
            let sd = a.scalar_div(f(4)).values();
            let mut i = 0;
            while i < 3 { let mut j = 0; while j < 3 { assert!(sd[i][j] == f(A[i][j]) / f(4)); j += 1; } i += 1; }
            // invert: inv = adj(A)/det, adj[i][j] = cofactor(j, i); det = 4 so the division is exact
            let inv = a.invert().values();
            let cof = |r: usize, c: usize| -> i32 {
                let (r1, r2) = ((r + 1) % 3, (r + 2) % 3);
                let (c1, c2) = ((c + 1) % 3, (c + 2) % 3);
                A[r1][c1] * A[r2][c2] - A[r1][c2] * A[r2][c1]          // cyclic indices: the sign is built in
            };
            let det = A[0][0] * cof(0, 0) + A[0][1] * cof(0, 1) + A[0][2] * cof(0, 2);
            assert!(det == 4);
            let mut i = 0;
            while i < 3 { let mut j = 0; while j < 3 { assert!(inv[i][j] == f(cof(j, i)) / f(4)); j += 1; } i += 1; }
            // A * invert(A) == invert(A) * A == identity, exactly on these operands
            let id = a.clone().mul_mat(a.invert()).values();
            let id2 = a.invert().mul_mat(a.clone()).values();
            let mut i = 0;
            while i < 3 { let mut j = 0; while j < 3 { let e = if i == j { f(1) } else { f(0) }; assert!(id[i][j] == e && id2[i][j] == e); j += 1; } i += 1; }
        }
    };
}
fixed!(matrix_ops_fixed_exact_f32, f32);
fixed!(matrix_ops_fixed_exact_f64, f64);

#[kani::proof]
#[kani::unwind(5)]
fn identity_is_neutral_fixed() {
    let a = Matrix::<f32>::new(RowVector::new(4.0, -6.0, 6.0), RowVector::new(5.0, -2.0, 7.0), RowVector::new(2.0, -1.0, 3.0));
    assert!(Matrix::<f32>::identity().mul_mat(a.clone()) == a && a.clone().mul_mat(Matrix::<f32>::identity()) == a);
    let b = Matrix::<f64>::new(RowVector::new(4.0, -6.0, 6.0), RowVector::new(5.0, -2.0, 7.0), RowVector::new(2.0, -1.0, 3.0));
    assert!(Matrix::<f64>::identity().mul_mat(b.clone()) == b && b.clone().mul_mat(Matrix::<f64>::identity()) == b);
}
