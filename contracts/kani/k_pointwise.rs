// Kani harnesses at the PUBLIC conversion API (child module of src/lib.rs) - BOUNDED stand-ins for the pointwise clause of C11
// on the per-image loops that are not plane loops: transfer flatten, primaries transform, YUV matrix loop, XYB and HSL loops.
// A 5x1 (resp. 1x5) image with FIXED, pairwise different pixels is converted and compared BIT FOR BIT with the conversions of
// its pixels as 1x1 images; width, height and length must come through. Five is deliberately not a multiple of 2, 3 or 4, so
// a chunked / unrolled rewrite that mishandles its tail, a loop that starts at 1 or stops at len-1, a value cached across pixels
// and swapped dimensions all fail here. The Verus units prove the same for every size, but attach their loop invariants
// by statement anchors; these harnesses need no anchors and still decide this geometry after a loop has been restructured.
use super::*;

const N: usize = 5;
const PIX: [[f32; 3]; N] = [[0.10, 0.50, 0.90], [0.73, 0.21, 0.05], [0.0, 1.0, 0.33], [0.6, 0.6, 0.6], [0.95, 0.02, 0.48]];
const HSLPIX: [[f32; 3]; N] = [[10.0, 0.5, 0.9], [130.0, 0.21, 0.05], [0.0, 1.0, 0.33], [250.0, 0.0, 0.6], [359.0, 0.02, 0.48]];

fn same(a: &[f32; 3], b: &[f32; 3]) -> bool {
    a[0].to_bits() == b[0].to_bits() && a[1].to_bits() == b[1].to_bits() && a[2].to_bits() == b[2].to_bits()
}
fn check(w: usize, h: usize, gw: usize, gh: usize, got: &[[f32; 3]], one: impl Fn([f32; 3]) -> [f32; 3], src: &[[f32; 3]; N]) {
    assert!(gw == w && gh == h);
    assert!(got.len() == N);
    let mut i = 0;
    while i < N {
        let want = one(src[i]);
        assert!(same(&got[i], &want));
        i += 1;
    }
}

#[kani::proof]
#[kani::unwind(8)]
fn pw_lrgb_to_xyb_5x1_fixed() {
    let img = Xyb::from(LinearRgb::new(PIX.to_vec(), 5, 1).unwrap());
    check(5, 1, img.width(), img.height(), img.data(), |p| Xyb::from(LinearRgb::new(vec![p], 1, 1).unwrap()).data()[0], &PIX);
}
#[kani::proof]
#[kani::unwind(8)]
fn pw_xyb_to_lrgb_1x5_fixed() {
    let img = LinearRgb::from(Xyb::new(PIX.to_vec(), 1, 5).unwrap());
    check(1, 5, img.width(), img.height(), img.data(), |p| LinearRgb::from(Xyb::new(vec![p], 1, 1).unwrap()).data()[0], &PIX);
}
#[kani::proof]
#[kani::unwind(8)]
fn pw_lrgb_to_hsl_5x1_fixed() {
    let img = Hsl::from(LinearRgb::new(PIX.to_vec(), 5, 1).unwrap());
    check(5, 1, img.width(), img.height(), img.data(), |p| Hsl::from(LinearRgb::new(vec![p], 1, 1).unwrap()).data()[0], &PIX);
}
#[kani::proof]
#[kani::unwind(8)]
fn pw_hsl_to_lrgb_1x5_fixed() {
    let img = LinearRgb::from(Hsl::new(HSLPIX.to_vec(), 1, 5).unwrap());
    check(1, 5, img.width(), img.height(), img.data(), |p| LinearRgb::from(Hsl::new(vec![p], 1, 1).unwrap()).data()[0], &HSLPIX);
}
// transfer flatten (to_linear) + primaries transform (BT.2020 -> BT.709 working space)
#[kani::proof]
#[kani::unwind(17)]
fn pw_rgb_to_lrgb_5x1_fixed() {
    let (t, p) = (TransferCharacteristic::SRGB, ColorPrimaries::BT2020);
    let img = LinearRgb::try_from(Rgb::new(PIX.to_vec(), 5, 1, t, p).unwrap()).unwrap();
    check(5, 1, img.width(), img.height(), img.data(), |x| LinearRgb::try_from(Rgb::new(vec![x], 1, 1, t, p).unwrap()).unwrap().data()[0], &PIX);
}
// primaries transform (BT.709 -> P3) + transfer flatten (to_gamma)
#[kani::proof]
#[kani::unwind(17)]
fn pw_lrgb_to_rgb_1x5_fixed() {
    let (t, p) = (TransferCharacteristic::BT1886, ColorPrimaries::P3Display);
    let img = Rgb::try_from((LinearRgb::new(PIX.to_vec(), 1, 5).unwrap(), t, p)).unwrap();
    check(1, 5, img.width(), img.height(), img.data(), |x| Rgb::try_from((LinearRgb::new(vec![x], 1, 1).unwrap(), t, p)).unwrap().data()[0], &PIX);
}
