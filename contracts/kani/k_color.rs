// Kani harnesses for src/yuv_rgb/color.rs (child module of `yuv_rgb::color`).
// Input-free harnesses evaluate the REAL matrix construction bit-precisely (f32 rounding of the Cramer
// inversion included) and compare with the H.273 / CIE closed forms computed in f64 from constants
// written here from the standards (the oracle side).
use super::*;
use av_data::pixel::{ColorPrimaries as CP, MatrixCoefficients as MC, TransferCharacteristic as TC};

fn cfg(mc: MC) -> YuvConfig {
    YuvConfig { bit_depth: 8, subsampling_x: 0, subsampling_y: 0, full_range: false,
        matrix_coefficients: mc, transfer_characteristics: TC::BT1886, color_primaries: CP::BT709 }
}
// H.273 Table 4 (Kr, Kb)
fn h273_kr_kb(mc: MC) -> (f64, f64) {
    match mc {
        MC::BT709 => (0.2126, 0.0722),
        MC::BT470M => (0.30, 0.11),
        MC::BT470BG | MC::ST170M => (0.299, 0.114),
        MC::ST240M => (0.212, 0.087),
        MC::BT2020NonConstantLuminance => (0.2627, 0.0593),
        _ => unreachable!(),
    }
}
fn h273_decode(mc: MC) -> [[f64; 3]; 3] {
    if mc == MC::YCgCo { return [[1.0, -1.0, 1.0], [1.0, 1.0, 0.0], [1.0, -1.0, -1.0]]; }
    let (kr, kb) = h273_kr_kb(mc); let kg = 1.0 - kr - kb;
    [[1.0, 0.0, 2.0 * (1.0 - kr)],
     [1.0, -2.0 * kb * (1.0 - kb) / kg, -2.0 * kr * (1.0 - kr) / kg],
     [1.0, 2.0 * (1.0 - kb), 0.0]]
}
fn h273_encode(mc: MC) -> [[f64; 3]; 3] {
    if mc == MC::YCgCo { return [[0.25, 0.5, 0.25], [-0.25, 0.5, -0.25], [0.5, 0.0, -0.5]]; }
    let (kr, kb) = h273_kr_kb(mc); let kg = 1.0 - kr - kb;
    let (u, v) = (2.0 * (1.0 - kb), 2.0 * (1.0 - kr));
    [[kr, kg, kb], [-kr / u, -kg / u, (1.0 - kb) / u], [(1.0 - kr) / v, -kg / v, -kb / v]]
}
fn close(m: Matrix, r: [[f64; 3]; 3], tol: f64) {
    let v = m.values();
    let mut i = 0;
    while i < 3 { let mut j = 0; while j < 3 { assert!((v[i][j] as f64 - r[i][j]).abs() <= tol); j += 1; } i += 1; }
}
// the magnitude facts used as hypotheses by the Verus error-budget lemmas (U-round) are checked here on the closed forms:
//   decode rows: |D_i0| + |D_i1|/2 + |D_i2|/2 <= 2 and |D_ij| <= 2;   encode rows: |F_j0| + |F_j1| + |F_j2| <= 1
fn decode_matrix_is_h273(mc: MC) {
    let d = h273_decode(mc);
    close(get_yuv_to_rgb_matrix(cfg(mc)).unwrap(), d, 4e-7);
    let mut i = 0;
    while i < 3 { assert!(d[i][0].abs() + 0.5 * d[i][1].abs() + 0.5 * d[i][2].abs() <= 2.0 + 1e-12); assert!(d[i][0].abs() <= 2.0 && d[i][1].abs() <= 2.0 && d[i][2].abs() <= 2.0); i += 1; }
}
fn encode_matrix_is_h273(mc: MC) {
    let f = h273_encode(mc);
    close(get_rgb_to_yuv_matrix(cfg(mc)).unwrap(), f, 6e-8);
    let mut i = 0;
    while i < 3 { assert!(f[i][0].abs() + f[i][1].abs() + f[i][2].abs() <= 1.0 + 1e-12); i += 1; }
}

// C16: neutral chroma decodes to R=G=B for EVERY luma value (f32 symbolic), spread <= 5e-7
fn neutral_axis(mc: MC) {
    let m = get_yuv_to_rgb_matrix(cfg(mc)).unwrap();
    let y: f32 = kani::any();
    kani::assume(y >= 0.0 && y <= 1.0);
    kani::cover!(y == 0.0);
    kani::cover!(y == 1.0);
    let p = m.mul_arr([y, 0.0, 0.0]);
    let hi = p[0].max(p[1]).max(p[2]); let lo = p[0].min(p[1]).min(p[2]);
    assert!(hi - lo <= 5e-7);
    assert!((p[0] - y).abs() <= 5e-7);
}
// C08 / C16 (exact structure, bit-precise): chroma rows of the encode matrix sum to ~0, luma row to ~1
fn encode_rows(mc: MC) {
    let v = get_rgb_to_yuv_matrix(cfg(mc)).unwrap().values();
    assert!((v[0][0] + v[0][1] + v[0][2] - 1.0).abs() <= 1.2e-7);
    assert!((v[1][0] + v[1][1] + v[1][2]).abs() <= 6e-8);
    assert!((v[2][0] + v[2][1] + v[2][2]).abs() <= 6e-8);
}

macro_rules! per_matrix {
    ($f:ident, $( $name:ident = $mc:expr ),* $(,)?) => { $( #[kani::proof] #[kani::unwind(4)] fn $name() { $f($mc); } )* };
}
per_matrix!(decode_matrix_is_h273, decode_bt709 = MC::BT709, decode_bt470m = MC::BT470M, decode_bt470bg = MC::BT470BG,
    decode_st170m = MC::ST170M, decode_st240m = MC::ST240M, decode_bt2020ncl = MC::BT2020NonConstantLuminance, decode_ycgco = MC::YCgCo);
per_matrix!(encode_matrix_is_h273, encode_bt709 = MC::BT709, encode_bt470m = MC::BT470M, encode_bt470bg = MC::BT470BG,
    encode_st170m = MC::ST170M, encode_st240m = MC::ST240M, encode_bt2020ncl = MC::BT2020NonConstantLuminance, encode_ycgco = MC::YCgCo);
per_matrix!(neutral_axis, neutral_bt709 = MC::BT709, neutral_bt470m = MC::BT470M, neutral_bt470bg = MC::BT470BG,
    neutral_st170m = MC::ST170M, neutral_st240m = MC::ST240M, neutral_bt2020ncl = MC::BT2020NonConstantLuminance, neutral_ycgco = MC::YCgCo);
per_matrix!(encode_rows, encrows_bt709 = MC::BT709, encrows_bt470m = MC::BT470M, encrows_bt470bg = MC::BT470BG,
    encrows_st170m = MC::ST170M, encrows_st240m = MC::ST240M, encrows_bt2020ncl = MC::BT2020NonConstantLuminance, encrows_ycgco = MC::YCgCo);

// ---------------------------------------------------------------- bounded per-plane sweeps (E4)
// One plane symbolic over ALL its codes, the other two fixed (companions chosen by the driver), through
// the real composite  to_f32_* -> inv.mul_arr [-> fwd.mul_arr -> from_f32_*].
use super::super::{from_f32_chroma, from_f32_luma, get_scale_offset, to_f32_chroma, to_f32_luma};
fn mc_of(i: u8) -> MC {
    match i { 0 => MC::BT709, 1 => MC::BT470M, 2 => MC::BT470BG, 3 => MC::ST170M, 4 => MC::ST240M,
              5 => MC::BT2020NonConstantLuminance, _ => MC::YCgCo }
}
fn sweep_codes(bd: u8, plane: u8, a: u16, b: u16) -> [u16; 3] {
    let c: u16 = kani::any();
    kani::assume(c <= ((1u32 << bd) - 1) as u16);
    match plane { 0 => [c, a, b], 1 => [a, c, b], _ => [a, b, c] }
}
fn nrm(c: u16, bd: u8, full: bool, chroma: bool) -> f64 {
    let k = (1u32 << (bd - 8)) as f64;
    let range = if full { ((1u32 << bd) - 1) as f64 } else if chroma { 224.0 * k } else { 219.0 * k };
    let black = if chroma { (1u32 << (bd - 1)) as f64 } else if full { 0.0 } else { 16.0 * k };
    let v = (c as f64 - black) / range;
    if chroma { if v < -0.5 { -0.5 } else if v > 0.5 { 0.5 } else { v } } else if v < 0.0 { 0.0 } else if v > 1.0 { 1.0 } else { v }
}
pub(super) fn sweep_decode(mi: u8, bd: u8, full: bool, plane: u8, a: u16, b: u16) {
    let mc = mc_of(mi);
    let yuv = sweep_codes(bd, plane, a, b);
    let (ls, lo) = get_scale_offset::<true>(bd, full, false);
    let (cs, co) = get_scale_offset::<true>(bd, full, true);
    let inv = get_yuv_to_rgb_matrix(cfg(mc)).unwrap();
    let rgb = inv.mul_arr([to_f32_luma(yuv[0], ls, lo), to_f32_chroma(yuv[1], cs, co), to_f32_chroma(yuv[2], cs, co)]);
    let d = h273_decode(mc);
    let (y, cb, cr) = (nrm(yuv[0], bd, full, false), nrm(yuv[1], bd, full, true), nrm(yuv[2], bd, full, true));
    let mut i = 0;
    while i < 3 {
        let want = d[i][0] * y + d[i][1] * cb + d[i][2] * cr;
        assert!((rgb[i] as f64 - want).abs() <= 3e-6);
        i += 1;
    }
}
pub(super) fn sweep_roundtrip(mi: u8, bd: u8, full: bool, plane: u8, a: u16, b: u16) {
    let mc = mc_of(mi);
    let yuv = sweep_codes(bd, plane, a, b);
    let (ls, lo) = get_scale_offset::<true>(bd, full, false);
    let (cs, co) = get_scale_offset::<true>(bd, full, true);
    let (ls2, lo2) = get_scale_offset::<false>(bd, full, false);
    let (cs2, co2) = get_scale_offset::<false>(bd, full, true);
    let inv = get_yuv_to_rgb_matrix(cfg(mc)).unwrap();
    let fwd = get_rgb_to_yuv_matrix(cfg(mc)).unwrap();
    let rgb = inv.mul_arr([to_f32_luma(yuv[0], ls, lo), to_f32_chroma(yuv[1], cs, co), to_f32_chroma(yuv[2], cs, co)]);
    let p = fwd.mul_arr(rgb);
    let back: [u16; 3] = [from_f32_luma(p[0], ls2, lo2, bd), from_f32_chroma(p[1], cs2, co2, bd, full), from_f32_chroma(p[2], cs2, co2, bd, full)];
    let k = 1u16 << (bd - 8);
    if full {
        assert!(back[0] == yuv[0]);
        assert!(back[1] == yuv[1] || (yuv[1] == 0 && back[1] == 1));
        assert!(back[2] == yuv[2] || (yuv[2] == 0 && back[2] == 1));
    } else {
        assert!(back[0] == num_traits::clamp(yuv[0], 16 * k, 235 * k));
        assert!(back[1] == num_traits::clamp(yuv[1], 16 * k, 240 * k));
        assert!(back[2] == num_traits::clamp(yuv[2], 16 * k, 240 * k));
    }
}
// driver-generated harnesses (selected by VERIF_SEED) are appended below this line

// ---------------------------------------------------------------- C06: primaries conversion vs the CIE derivation
// Input-free: the REAL transform_primaries is applied to the basis vectors and to white; the reference
// M_out^-1 * Bradford(white_in -> white_out) * M_in is computed here in f64 from the H.273 chromaticities.
type M64 = [[f64; 3]; 3];
fn h273_xy(p: CP) -> ([[f64; 2]; 3], [f64; 2]) {
    let d65 = [0.3127, 0.3290]; let c = [0.310, 0.316];
    match p {
        CP::BT709 => ([[0.640, 0.330], [0.300, 0.600], [0.150, 0.060]], d65),
        CP::BT470M => ([[0.67, 0.33], [0.21, 0.71], [0.14, 0.08]], c),
        CP::BT470BG => ([[0.64, 0.33], [0.29, 0.60], [0.15, 0.06]], d65),
        CP::ST170M | CP::ST240M => ([[0.630, 0.340], [0.310, 0.595], [0.155, 0.070]], d65),
        CP::Film => ([[0.681, 0.319], [0.243, 0.692], [0.145, 0.049]], c),
        CP::BT2020 => ([[0.708, 0.292], [0.170, 0.797], [0.131, 0.046]], d65),
        CP::P3DCI => ([[0.680, 0.320], [0.265, 0.690], [0.150, 0.060]], [0.314, 0.351]),
        CP::P3Display => ([[0.680, 0.320], [0.265, 0.690], [0.150, 0.060]], d65),
        CP::Tech3213 => ([[0.630, 0.340], [0.295, 0.605], [0.155, 0.077]], d65),
        _ => unreachable!(),
    }
}
fn mul64(a: M64, b: M64) -> M64 {
    let mut r = [[0.0; 3]; 3];
    let mut i = 0; while i < 3 { let mut j = 0; while j < 3 { r[i][j] = a[i][0] * b[0][j] + a[i][1] * b[1][j] + a[i][2] * b[2][j]; j += 1; } i += 1; }
    r
}
fn mulv64(a: M64, v: [f64; 3]) -> [f64; 3] {
    [a[0][0] * v[0] + a[0][1] * v[1] + a[0][2] * v[2], a[1][0] * v[0] + a[1][1] * v[1] + a[1][2] * v[2], a[2][0] * v[0] + a[2][1] * v[1] + a[2][2] * v[2]]
}
fn inv64(m: M64) -> M64 {
    let c = |r0: usize, c0: usize, r1: usize, c1: usize| m[r0][c0] * m[r1][c1] - m[r0][c1] * m[r1][c0];
    let det = m[0][0] * c(1, 1, 2, 2) - m[0][1] * c(1, 0, 2, 2) + m[0][2] * c(1, 0, 2, 1);
    [[c(1, 1, 2, 2) / det, -c(0, 1, 2, 2) / det, c(0, 1, 1, 2) / det],
     [-c(1, 0, 2, 2) / det, c(0, 0, 2, 2) / det, -c(0, 0, 1, 2) / det],
     [c(1, 0, 2, 1) / det, -c(0, 0, 2, 1) / det, c(0, 0, 1, 1) / det]]
}
fn white_xyz(w: [f64; 2]) -> [f64; 3] { [w[0] / w[1], 1.0, (1.0 - w[0] - w[1]) / w[1]] }
// RGB -> XYZ matrix of a primaries set (CIE derivation): columns = primaries' XYZ scaled so that (1,1,1) -> white
fn rgb_to_xyz_ref(p: CP) -> (M64, [f64; 3]) {
    if p == CP::ST428 { return ([[1.0, 0.0, 0.0], [0.0, 1.0, 0.0], [0.0, 0.0, 1.0]], white_xyz([1.0 / 3.0, 1.0 / 3.0])); }
    let (xy, w) = h273_xy(p);
    let col = |k: usize| [xy[k][0] / xy[k][1], 1.0, (1.0 - xy[k][0] - xy[k][1]) / xy[k][1]];
    let (r, g, b) = (col(0), col(1), col(2));
    let m = [[r[0], g[0], b[0]], [r[1], g[1], b[1]], [r[2], g[2], b[2]]];
    let wx = white_xyz(w);
    let s = mulv64(inv64(m), wx);
    ([[m[0][0] * s[0], m[0][1] * s[1], m[0][2] * s[2]], [m[1][0] * s[0], m[1][1] * s[1], m[1][2] * s[2]], [m[2][0] * s[0], m[2][1] * s[1], m[2][2] * s[2]]], wx)
}
fn primaries_ref(i: CP, o: CP) -> M64 {
    let brad: M64 = [[0.8951, 0.2664, -0.1614], [-0.7502, 1.7135, 0.0367], [0.0389, -0.0685, 1.0296]];
    let (mi, wi) = rgb_to_xyz_ref(i); let (mo, wo) = rgb_to_xyz_ref(o);
    let (ci, co) = (mulv64(brad, wi), mulv64(brad, wo));
    let d: M64 = [[co[0] / ci[0], 0.0, 0.0], [0.0, co[1] / ci[1], 0.0], [0.0, 0.0, co[2] / ci[2]]];
    let adapt = if wi[0] == wo[0] && wi[2] == wo[2] { [[1.0, 0.0, 0.0], [0.0, 1.0, 0.0], [0.0, 0.0, 1.0]] } else { mul64(mul64(inv64(brad), d), brad) };
    mul64(mul64(inv64(mo), adapt), mi)
}
fn primaries_check(i: CP, o: CP) {
    let t = primaries_ref(i, o);
    // magnitude fact used by the Verus budget lemma (U-round, lemma_primaries_budget): every row of the reference matrix has abs sum <= 5.5
    { let mut r = 0; while r < 3 { assert!(t[r][0].abs() + t[r][1].abs() + t[r][2].abs() <= 5.5); r += 1; } }
    let img = transform_primaries(vec![[1.0, 0.0, 0.0], [0.0, 1.0, 0.0], [0.0, 0.0, 1.0], [1.0, 1.0, 1.0]], i, o).unwrap();
    let mut k = 0;
    while k < 3 {
        let mut c = 0;
        // image of basis vector e_k is column k of the reference matrix (all pixels follow by linearity of mul_arr)
        while c < 3 { assert!((img[k][c] as f64 - t[c][k]).abs() <= 2e-6); c += 1; }
        k += 1;
    }
    // equal-energy white stays white
    let mut c = 0;
    while c < 3 { assert!((img[3][c] - 1.0).abs() <= 1e-5); c += 1; }
    // there and back returns the basis
    let back = transform_primaries(img, o, i).unwrap();
    let mut k = 0;
    while k < 3 {
        let mut c = 0;
        while c < 3 { assert!((back[k][c] - if k == c { 1.0 } else { 0.0 }).abs() <= 1e-5); c += 1; }
        k += 1;
    }
}
macro_rules! per_primaries {
    ($( $to:ident, $from:ident = $p:expr ),* $(,)?) => { $(
        #[kani::proof] #[kani::unwind(6)] fn $to() { primaries_check($p, CP::BT709); }
        #[kani::proof] #[kani::unwind(6)] fn $from() { primaries_check(CP::BT709, $p); }
    )* };
}
per_primaries!(prim_bt470m_to709, prim_709_to_bt470m = CP::BT470M, prim_bt470bg_to709, prim_709_to_bt470bg = CP::BT470BG,
    prim_st170m_to709, prim_709_to_st170m = CP::ST170M, prim_st240m_to709, prim_709_to_st240m = CP::ST240M,
    prim_film_to709, prim_709_to_film = CP::Film, prim_bt2020_to709, prim_709_to_bt2020 = CP::BT2020,
    prim_st428_to709, prim_709_to_st428 = CP::ST428, prim_p3dci_to709, prim_709_to_p3dci = CP::P3DCI,
    prim_p3display_to709, prim_709_to_p3display = CP::P3Display, prim_tech3213_to709, prim_709_to_tech3213 = CP::Tech3213);
// identical primaries: the data comes back bit-exactly (symbolic pixel)
#[kani::proof] #[kani::unwind(3)]
fn prim_same_is_identity() {
    let p: [f32; 3] = [kani::any(), kani::any(), kani::any()];
    let out = transform_primaries(vec![p], CP::BT2020, CP::BT2020).unwrap();
    assert!(out[0][0].to_bits() == p[0].to_bits() && out[0][1].to_bits() == p[1].to_bits() && out[0][2].to_bits() == p[2].to_bits());
}
