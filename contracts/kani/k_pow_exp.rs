// Kani harnesses for yuvxyb-math/src/pow_exp.rs (child module: sees the private exp2/log2/poly*).
// Every harness is loop-free over the FULL f32 domain of its inputs => a complete proof, not a bounded one.
use super::*;

// C07/C13/C18: nothing reaches `to_int_unchecked` non-finite or out of i32 range, for every f32 bit pattern.
#[kani::proof]
fn exp2_total() {
    let x: f32 = kani::any();
    kani::cover!(x.is_nan());
    kani::cover!(x.is_infinite());
    kani::cover!(x > 129.0);
    kani::cover!(x < -127.0);
    let _ = exp2(x);
}

#[kani::proof]
fn log2_total() {
    let x: f32 = kani::any();
    kani::cover!(x.is_nan());
    kani::cover!(x < 0.0);
    let _ = log2(x);
}

#[kani::proof]
fn powf_total() {
    let x: f32 = kani::any();
    let y: f32 = kani::any();
    kani::cover!(y.is_nan());
    kani::cover!(x.is_nan());
    kani::cover!(x == 0.0 && y < 0.0);
    let _ = powf(x, y);
}

#[kani::proof]
fn expf_total() {
    let x: f32 = kani::any();
    kani::cover!(x.is_nan());
    kani::cover!(x.is_infinite());
    let _ = expf(x);
}

// C18: saturation ranges of expf
#[kani::proof]
fn expf_saturates_high() {
    let x: f32 = kani::any();
    kani::assume(x >= 89.0 && x <= 1e38);
    kani::cover!(x == 89.0);
    kani::cover!(x == 1e38);
    assert!(expf(x) == f32::INFINITY);
}

#[kani::proof]
fn expf_saturates_low() {
    let x: f32 = kani::any();
    kani::assume(x <= -88.0 && x >= -1e38);
    kani::cover!(x == -88.0);
    kani::cover!(x == -1e38);
    assert!(expf(x) == 0.0);
}

// finite inputs of the ranges the curves use give finite, non-negative results (feeds C13's "finite in, finite out")
#[kani::proof]
fn powf_unit_interval_finite() {
    let x: f32 = kani::any();
    let y: f32 = kani::any();
    kani::assume(x >= 0.0 && x <= 1.0);
    kani::assume(y >= 0.0 && y <= 80.0);
    kani::cover!(x == 0.0);
    kani::cover!(x == 1.0);
    let r = powf(x, y);
    assert!(r.is_finite());
    assert!(r >= 0.0);
}
