// Kani harnesses for the two plane loops of src/yuv_rgb.rs on the REAL v_frame planes - BOUNDED stand-ins (concrete tiny
// geometries, symbolic contents). They back the unbounded Verus proof of U-planes-loops in two ways: they exercise the real
// Plane::new / data_origin / get_unchecked code the Verus unit only sees through stand-ins, and they still decide the
// C11 statement for the listed geometries when the loop is restructured so that the Verus invariants no longer attach
// (anchor lost => UNDECIDED from Verus; these harnesses then still pass or fail on their own).
use super::*;
use av_data::pixel::{ColorPrimaries as CP, MatrixCoefficients as MC, TransferCharacteristic as TC};
use v_frame::plane::Plane as VPlane;

fn pcfg(bd: u8, ss: (u8, u8), full: bool) -> YuvConfig {
    YuvConfig { bit_depth: bd, subsampling_x: ss.0, subsampling_y: ss.1, full_range: full,
        matrix_coefficients: MC::BT709, transfer_characteristics: TC::BT1886, color_primaries: CP::BT709 }
}
fn anyf() -> f32 { let x: f32 = kani::any(); kani::assume(x >= -0.25 && x <= 1.25); x }

// encoder: luma pointwise, chroma plane size, every chroma sample is the quantised chroma of a pixel of its own block
// SYM = true: all 3N components symbolic; SYM = false: fixed content whose quantised values are pairwise distinct (index
// errors are content-independent, so this cheap form already catches every wrong-index restructuring at the geometry)
fn enc_blocks<T: Pixel, const N: usize, const SYM: bool>(w: usize, h: usize, bd: u8, ss: (u8, u8), full: bool) {
    let mut input = [[0f32; 3]; N];
    let mut i = 0;
    while i < N {
        let t = i as f32;
        input[i] = if SYM { [anyf(), anyf(), anyf()] } else { [0.05 + 0.11 * t, -0.45 + 0.1 * t, 0.4 - 0.09 * t] };
        i += 1;
    }
    let c = pcfg(bd, ss, full);
    let out: Yuv<T> = ypbpr_to_ycbcr(&input, w, h, c);
    let (ls, lo) = get_scale_offset::<false>(bd, full, false);
    let (cs, co) = get_scale_offset::<false>(bd, full, true);
    let (sx, sy) = (ss.0 as usize, ss.1 as usize);
    assert!(out.width() == w && out.height() == h);
    assert!(out.data()[1].cfg.width == w >> sx && out.data()[1].cfg.height == h >> sy);
    assert!(out.data()[2].cfg.width == w >> sx && out.data()[2].cfg.height == h >> sy);
    let mut y = 0;
    while y < h {
        let mut x = 0;
        while x < w {
            let want: T = from_f32_luma(input[y * w + x][0], ls, lo, bd);
            assert!(u16::cast_from(out.data()[0].p(x, y)) == u16::cast_from(want));
            x += 1;
        }
        y += 1;
    }
    let mut cy = 0;
    while cy < (h >> sy) {
        let mut cx = 0;
        while cx < (w >> sx) {
            let u = u16::cast_from(out.data()[1].p(cx, cy));
            let v = u16::cast_from(out.data()[2].p(cx, cy));
            let (mut uok, mut vok) = (false, false);
            let mut dy = 0;
            while dy < (1usize << sy) {
                let mut dx = 0;
                while dx < (1usize << sx) {
                    let p = input[((cy << sy) + dy) * w + (cx << sx) + dx];
                    let ku: T = from_f32_chroma(p[1], cs, co, bd, full);
                    let kv: T = from_f32_chroma(p[2], cs, co, bd, full);
                    if u16::cast_from(ku) == u { uok = true; }
                    if u16::cast_from(kv) == v { vok = true; }
                    dx += 1;
                }
                dy += 1;
            }
            assert!(uok);
            assert!(vok);
            cx += 1;
        }
        cy += 1;
    }
}
#[kani::proof]
#[kani::unwind(66)]
fn enc_blocks_422_4x1_u8() { enc_blocks::<u8, 4, true>(4, 1, 8, (1, 0), false); }
#[kani::proof]
#[kani::unwind(66)]
fn enc_blocks_422_4x1_u8_fixed() { enc_blocks::<u8, 4, false>(4, 1, 8, (1, 0), false); }
#[kani::proof]
#[kani::unwind(130)]
fn enc_blocks_420_4x2_u8() { enc_blocks::<u8, 8, true>(4, 2, 8, (1, 1), true); }
#[kani::proof]
#[kani::unwind(130)]
fn enc_blocks_420_4x2_u8_fixed() { enc_blocks::<u8, 8, false>(4, 2, 8, (1, 1), true); }
#[kani::proof]
#[kani::unwind(130)]
fn enc_blocks_440_2x2_u16() { enc_blocks::<u16, 4, true>(2, 2, 10, (0, 1), false); }
#[kani::proof]
#[kani::unwind(130)]
fn enc_blocks_440_2x2_u16_fixed() { enc_blocks::<u16, 4, false>(2, 2, 10, (0, 1), false); }
#[kani::proof]
#[kani::unwind(66)]
fn enc_blocks_444_3x1_u16() { enc_blocks::<u16, 3, true>(3, 1, 12, (0, 0), true); }
#[kani::proof]
#[kani::unwind(66)]
fn enc_blocks_444_3x1_u16_fixed() { enc_blocks::<u16, 3, false>(3, 1, 12, (0, 0), true); }

// decoder: pixel (x,y) = kernels of Y(x,y), U(x>>sx,y>>sy), V(x>>sx,y>>sy); planes built with from_slice (stride = width)
fn dec_pointwise<const NY: usize, const NC: usize>(w: usize, h: usize, bd: u8, ss: (u8, u8), full: bool) {
    let ys: [u8; NY] = kani::any(); let us: [u8; NC] = kani::any(); let vs: [u8; NC] = kani::any();
    let (sx, sy) = (ss.0 as usize, ss.1 as usize);
    let mut pu = VPlane::from_slice(&us, w >> sx); pu.cfg.xdec = sx; pu.cfg.ydec = sy;
    let mut pv = VPlane::from_slice(&vs, w >> sx); pv.cfg.xdec = sx; pv.cfg.ydec = sy;
    let frame: Frame<u8> = Frame { planes: [VPlane::from_slice(&ys, w), pu, pv] };
    let yuv = Yuv::new(frame, pcfg(bd, ss, full)).unwrap();
    let out = ycbcr_to_ypbpr(&yuv);
    assert!(out.len() == w * h);
    let (ls, lo) = get_scale_offset::<true>(bd, full, false);
    let (cs, co) = get_scale_offset::<true>(bd, full, true);
    let mut y = 0;
    while y < h {
        let mut x = 0;
        while x < w {
            let p = out[y * w + x];
            let ci = (y >> sy) * (w >> sx) + (x >> sx);
            assert!(p[0] == to_f32_luma(ys[y * w + x], ls, lo));
            assert!(p[1] == to_f32_chroma(us[ci], cs, co));
            assert!(p[2] == to_f32_chroma(vs[ci], cs, co));
            x += 1;
        }
        y += 1;
    }
}
#[kani::proof]
#[kani::unwind(10)]
fn dec_pointwise_420_4x2_u8() { dec_pointwise::<8, 2>(4, 2, 8, (1, 1), false); }
#[kani::proof]
#[kani::unwind(10)]
fn dec_pointwise_422_4x1_u8() { dec_pointwise::<4, 2>(4, 1, 8, (1, 0), true); }
