// Kani harnesses for yuvxyb-math/src/cbrtf.rs
use super::*;

// C18/C13: total for every f32 bit pattern (NaN, +-inf, subnormal, zero): no panic, no UB, no overflow trap.
#[kani::proof]
fn cbrtf_total() {
    let x: f32 = kani::any();
    kani::cover!(x.is_nan());
    kani::cover!(x.is_infinite());
    kani::cover!(x == 0.0);
    let _ = cbrtf(x);
}

// sign symmetry of the bit trick: the seed of -x is the negated seed of x (first half of oddness), all f32.
#[kani::proof]
fn cbrtf_seed_is_odd() {
    let x: f32 = kani::any();
    kani::assume(!x.is_nan());
    const B1: u32 = 709_958_130;
    let seed = |v: f32| { let ui = v.to_bits(); let hx = (ui & 0x7FFF_FFFF) / 3 + B1; f32::from_bits((ui & 0x8000_0000) | hx) };
    kani::cover!(x < 0.0);
    assert!(seed(-x).to_bits() == (seed(x).to_bits() ^ 0x8000_0000));
}

// C18 oddness, BOUNDED: mantissa symbolic, exponent fixed (one harness instance per exponent, see driver).
fn odd_for_exponent(e: u32) {
    let m: u32 = kani::any();
    kani::assume(m < (1 << 23));
    let x = f32::from_bits((e << 23) | m);
    kani::cover!(m == 0);
    let a = cbrtf(x);
    let b = cbrtf(-x);
    assert!(b.to_bits() == (a.to_bits() ^ 0x8000_0000));
}
#[kani::proof] fn cbrtf_odd_exp_127() { odd_for_exponent(127); }
#[kani::proof] fn cbrtf_odd_exp_120() { odd_for_exponent(120); }
#[kani::proof] fn cbrtf_odd_exp_1() { odd_for_exponent(1); }
#[kani::proof] fn cbrtf_odd_exp_254() { odd_for_exponent(254); }
