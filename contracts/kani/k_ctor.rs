// Kani harnesses at crate level (child module of src/lib.rs) for the float-image constructors (C12) - anchor-free second opinion
// next to the Verus unit U-ctor: accept <=> data.len() == width*height as a MATHEMATICAL product (u128, no wrap-around), else
// ResolutionMismatch; an accepted image exposes exactly the data and dimensions it was given. The data length is concrete (0 and 6:
// a Vec of symbolic length is intractable for CBMC), width and height are any usize. Rgb::new also resolves Unspecified (C15).
use super::*;

fn log_off() -> log::LevelFilter { log::LevelFilter::Off }
fn px(i: usize) -> [f32; 3] { [i as f32, 0.5 + i as f32, -(i as f32)] }
fn data(n: usize) -> Vec<[f32; 3]> { let mut v = Vec::with_capacity(n); let mut i = 0; while i < n { v.push(px(i)); i += 1; } v }
fn same(d: &[[f32; 3]], n: usize) -> bool {
    if d.len() != n { return false; }
    let mut i = 0;
    while i < n { let p = px(i); if d[i][0].to_bits() != p[0].to_bits() || d[i][1].to_bits() != p[1].to_bits() || d[i][2].to_bits() != p[2].to_bits() { return false; } i += 1; }
    true
}
fn fits(w: usize, h: usize, n: usize) -> bool { (w as u128) * (h as u128) == n as u128 }

macro_rules! ctor3 {
    ($( $h:ident = ($ty:ident, $n:expr) ),* $(,)?) => { $(
        #[kani::proof]
        #[kani::unwind(8)]
        fn $h() {
            let (w, h): (usize, usize) = (kani::any(), kani::any());
            kani::cover!(fits(w, h, $n));
            kani::cover!(w > 1 << 40 && h > 1 << 40);
            match $ty::new(data($n), w, h) {
                Ok(img) => { assert!(fits(w, h, $n)); assert!(img.width() == w && img.height() == h); assert!(same(img.data(), $n)); }
                Err(e) => { assert!(!fits(w, h, $n)); assert!(e == CreationError::ResolutionMismatch); }
            }
        }
    )* };
}
ctor3!(
    ctor_lrgb_len6 = (LinearRgb, 6), ctor_lrgb_len0 = (LinearRgb, 0),
    ctor_xyb_len6 = (Xyb, 6), ctor_xyb_len0 = (Xyb, 0),
    ctor_hsl_len6 = (Hsl, 6), ctor_hsl_len0 = (Hsl, 0),
);

#[kani::proof]
#[kani::unwind(8)]
#[kani::stub(log::max_level, log_off)]
fn ctor_rgb_len6() {
    let (w, h): (usize, usize) = (kani::any(), kani::any());
    let t = match TransferCharacteristic::from_u8(kani::any()) { Some(t) => t, None => { kani::assume(false); TransferCharacteristic::Unspecified } };
    let p = match ColorPrimaries::from_u8(kani::any()) { Some(p) => p, None => { kani::assume(false); ColorPrimaries::Unspecified } };
    kani::cover!(fits(w, h, 6) && t == TransferCharacteristic::Unspecified);
    match Rgb::new(data(6), w, h, t, p) {
        Ok(img) => {
            assert!(fits(w, h, 6)); assert!(img.width() == w && img.height() == h); assert!(same(img.data(), 6));
            assert!(img.transfer() == if t == TransferCharacteristic::Unspecified { TransferCharacteristic::SRGB } else { t });
            assert!(img.primaries() == if p == ColorPrimaries::Unspecified { ColorPrimaries::BT709 } else { p });
        }
        Err(e) => { assert!(!fits(w, h, 6)); assert!(e == CreationError::ResolutionMismatch); }
    }
}
