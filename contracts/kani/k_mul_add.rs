// Kani harnesses for yuvxyb-math/src/mul_add.rs (child module): the three real multiply-add entry points, COMPLETE over every bit
// pattern of their operands (loop-free, full domain). The Verus units U-matrix / U-round verify matrix.rs for every T whose
// `fast_mul_add(a, b)` is `self*a + b` (exactly, or rounded once / twice under the standard model); these harnesses discharge that
// hypothesis for the two real implementors f32 and f64: the value returned is, bit for bit, either the unfused IEEE `self*a + b`
// (two roundings) or the fused `mul_add` (one rounding) - both forms are accepted, so switching between them raises no alarm - and
// NaN exactly when that form is NaN. f32 and f64 are checked by the same statement ("behave alike").
use super::*;

#[kani::proof]
fn fast_mul_add_f32_every_triple() {
    let (x, a, b): (f32, f32, f32) = (kani::any(), kani::any(), kani::any());
    let r = x.fast_mul_add(a, b);
    let unfused = x * a + b;
    kani::cover!(r.is_finite() && r != 0.0 && b != 0.0 && a != 0.0 && x != 1.0);
    if r.to_bits() == unfused.to_bits() || (r.is_nan() && unfused.is_nan()) { return; }
    let fused = x.mul_add(a, b);
    assert!(r.to_bits() == fused.to_bits() || (r.is_nan() && fused.is_nan()), "f32 fast_mul_add(x,a,b) is x*a+b (fused or unfused)");
}

#[kani::proof]
fn fast_mul_add_f64_every_triple() {
    let (x, a, b): (f64, f64, f64) = (kani::any(), kani::any(), kani::any());
    let r = x.fast_mul_add(a, b);
    let unfused = x * a + b;
    kani::cover!(r.is_finite() && r != 0.0 && b != 0.0 && a != 0.0 && x != 1.0);
    if r.to_bits() == unfused.to_bits() || (r.is_nan() && unfused.is_nan()) { return; }
    let fused = x.mul_add(a, b);
    assert!(r.to_bits() == fused.to_bits() || (r.is_nan() && fused.is_nan()), "f64 fast_mul_add(x,a,b) is x*a+b (fused or unfused)");
}

#[kani::proof]
fn multiply_add_every_triple() {
    let (a, b, c): (f32, f32, f32) = (kani::any(), kani::any(), kani::any());
    let r = multiply_add(a, b, c);
    let unfused = a * b + c;
    kani::cover!(r.is_finite() && r != 0.0 && c != 0.0 && a != 0.0 && b != 1.0);
    if r.to_bits() == unfused.to_bits() || (r.is_nan() && unfused.is_nan()) { return; }
    let fused = a.mul_add(b, c);
    assert!(r.to_bits() == fused.to_bits() || (r.is_nan() && fused.is_nan()), "multiply_add(a,b,c) is a*b+c (fused or unfused)");
}
