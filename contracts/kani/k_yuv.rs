// Kani harness for src/yuv.rs: bounded cross-check of the iterator expression that U-planes cuts to the stub
// `any_sample_exceeds` (R-anycut): on real v_frame planes of concrete tiny geometry with symbolic samples,
// Yuv::new rejects with InvalidData exactly when some visible sample exceeds 2^n - 1.
use super::*;
use av_data::pixel::{ColorPrimaries as CP, MatrixCoefficients as MC, TransferCharacteristic as TC};
use v_frame::{frame::Frame, plane::Plane};

fn cfg(bd: u8, ss: (u8, u8)) -> YuvConfig {
    YuvConfig { bit_depth: bd, subsampling_x: ss.0, subsampling_y: ss.1, full_range: true,
        matrix_coefficients: MC::BT709, transfer_characteristics: TC::BT1886, color_primaries: CP::BT709 }
}
#[kani::proof]
#[kani::unwind(9)]
fn range_check_is_any_visible_sample_2x2_444_10bit() {
    let y: [u16; 4] = kani::any(); let u: [u16; 4] = kani::any(); let v: [u16; 4] = kani::any();
    let frame: Frame<u16> = Frame { planes: [Plane::from_slice(&y, 2), Plane::from_slice(&u, 2), Plane::from_slice(&v, 2)] };
    let r = Yuv::new(frame, cfg(10, (0, 0)));
    let mut bad = false;
    let mut i = 0;
    while i < 4 { if y[i] > 1023 || u[i] > 1023 || v[i] > 1023 { bad = true; } i += 1; }
    kani::cover!(bad); kani::cover!(!bad);
    match r { Ok(_) => assert!(!bad), Err(e) => { assert!(bad); assert!(e == YuvError::InvalidData); } }
}
#[kani::proof]
#[kani::unwind(9)]
fn range_check_is_any_visible_sample_2x2_420_12bit() {
    let y: [u16; 4] = kani::any(); let u: [u16; 1] = kani::any(); let v: [u16; 1] = kani::any();
    let mut pu = Plane::from_slice(&u, 1); pu.cfg.xdec = 1; pu.cfg.ydec = 1;
    let mut pv = Plane::from_slice(&v, 1); pv.cfg.xdec = 1; pv.cfg.ydec = 1;
    let frame: Frame<u16> = Frame { planes: [Plane::from_slice(&y, 2), pu, pv] };
    let r = Yuv::new(frame, cfg(12, (1, 1)));
    let mut bad = u[0] > 4095 || v[0] > 4095;
    let mut i = 0;
    while i < 4 { if y[i] > 4095 { bad = true; } i += 1; }
    kani::cover!(bad); kani::cover!(!bad);
    match r { Ok(_) => assert!(!bad), Err(e) => { assert!(bad); assert!(e == YuvError::InvalidData); } }
}
// C12 "no VISIBLE sample exceeds 2^n-1": samples in the right-hand stride padding (and below the visible rows) are not visible and must not
// be scanned. Luma plane 2x2 visible inside a 4-wide, 3-row buffer whose padding holds arbitrary (symbolic) samples, 10-bit.
#[kani::proof]
#[kani::unwind(14)]
fn range_check_ignores_stride_padding_2x2_in_4x3() {
    let buf: [u16; 12] = kani::any();
    let u: [u16; 4] = kani::any(); let v: [u16; 4] = kani::any();
    let mut py = Plane::from_slice(&buf, 4);
    py.cfg.width = 2; py.cfg.height = 2; py.cfg.xpad = 2; py.cfg.ypad = 1;
    let frame: Frame<u16> = Frame { planes: [py, Plane::from_slice(&u, 2), Plane::from_slice(&v, 2)] };
    let r = Yuv::new(frame, cfg(10, (0, 0)));
    let vis = [buf[0], buf[1], buf[4], buf[5]];
    let mut bad = false;
    let mut i = 0;
    while i < 4 { if vis[i] > 1023 || u[i] > 1023 || v[i] > 1023 { bad = true; } i += 1; }
    kani::cover!(!bad && buf[2] > 1023);      // junk in the padding of an otherwise valid frame
    kani::cover!(!bad && buf[9] > 1023);
    match r { Ok(y) => { assert!(!bad); assert!(y.width() == 2 && y.height() == 2); }, Err(e) => { assert!(bad); assert!(e == YuvError::InvalidData); } }
}
