// Kani harness for src/yuv.rs: bounded cross-check of the iterator expression that U-planes cuts to the stub
// `any_sample_exceeds` (R-anycut): on real v_frame planes of concrete tiny geometry with symbolic samples,
// Yuv::new rejects with InvalidData exactly when some visible sample exceeds 2^n - 1.
use super::*;
use av_data::pixel::{ColorPrimaries as CP, MatrixCoefficients as MC, TransferCharacteristic as TC};
use v_frame::{frame::Frame, plane::Plane};

fn cfg(bd: u8, ss: (u8, u8)) -> YuvConfig {
    YuvConfig { bit_depth: bd, subsampling_x: ss.0, subsampling_y: ss.1, full_range: true,
        matrix_coefficients: MC::BT709, transfer_characteristics: TC::BT1886, color_primaries: CP::BT709 }
}
#[kani::proof]
#[kani::unwind(9)]
fn range_check_is_any_visible_sample_2x2_444_10bit() {
    let y: [u16; 4] = kani::any(); let u: [u16; 4] = kani::any(); let v: [u16; 4] = kani::any();
    let frame: Frame<u16> = Frame { planes: [Plane::from_slice(&y, 2), Plane::from_slice(&u, 2), Plane::from_slice(&v, 2)] };
    let r = Yuv::new(frame, cfg(10, (0, 0)));
    let mut bad = false;
    let mut i = 0;
    while i < 4 { if y[i] > 1023 || u[i] > 1023 || v[i] > 1023 { bad = true; } i += 1; }
    kani::cover!(bad); kani::cover!(!bad);
    match r { Ok(_) => assert!(!bad), Err(e) => { assert!(bad); assert!(e == YuvError::InvalidData); } }
}
#[kani::proof]
#[kani::unwind(9)]
fn range_check_is_any_visible_sample_2x2_420_12bit() {
    let y: [u16; 4] = kani::any(); let u: [u16; 1] = kani::any(); let v: [u16; 1] = kani::any();
    let mut pu = Plane::from_slice(&u, 1); pu.cfg.xdec = 1; pu.cfg.ydec = 1;
    let mut pv = Plane::from_slice(&v, 1); pv.cfg.xdec = 1; pv.cfg.ydec = 1;
    let frame: Frame<u16> = Frame { planes: [Plane::from_slice(&y, 2), pu, pv] };
    let r = Yuv::new(frame, cfg(12, (1, 1)));
    let mut bad = u[0] > 4095 || v[0] > 4095;
    let mut i = 0;
    while i < 4 { if y[i] > 4095 { bad = true; } i += 1; }
    kani::cover!(bad); kani::cover!(!bad);
    match r { Ok(_) => assert!(!bad), Err(e) => { assert!(bad); assert!(e == YuvError::InvalidData); } }
}
