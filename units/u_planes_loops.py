"""The two plane loops of src/yuv_rgb.rs (ycbcr_to_ypbpr, ypbpr_to_ycbcr) for U-planes."""
import re, os
from rsx import RustSrc, AnchorLost, _mask, split_fn
from vgen import C, apply_contract, strip_attrs_and_docs

REL = 'src/yuv_rgb.rs'

SPEC = r'''
// =====================================================================================================
// C11: the pixel/index map of the plane loops, written from the property statement
// =====================================================================================================
pub open spec fn cell(y: int, w: int, x: int) -> int { y * w + x }
// sample (x, y) of plane p, relative to the plane's origin: independent of padding/stride contents elsewhere
pub open spec fn sample<T>(p: Plane<T>, y: int, x: int) -> T { p.data.v@[origin(p.cfg) + y * p.cfg.stride + x] }
pub open spec fn pix3(a: [f32; 3], l: f32, u: f32, v: f32) -> bool { a[0] == l && a[1] == u && a[2] == v }
// the 1x1 conversion of pixel (x, y): depends only on Y(x,y) and the chroma samples at (x >> ss_x, y >> ss_y)
pub open spec fn ypbpr_at<T: Pixel>(i: Yuv<T>, y: int, x: int, out: [f32; 3]) -> bool {
    let c = i.config; let p = i.data.planes;
    let lso = s_scale_offset(true, c.bit_depth, c.full_range, false);
    let cso = s_scale_offset(true, c.bit_depth, c.full_range, true);
    let cy = y / pow2(c.subsampling_y as int); let cx = x / pow2(c.subsampling_x as int);
    pix3(out, s_to_f32_luma(sample(p[0], y, x), lso.0, lso.1),
              s_to_f32_chroma(sample(p[1], cy, cx), cso.0, cso.1),
              s_to_f32_chroma(sample(p[2], cy, cx), cso.0, cso.1))
}
pub proof fn lemma_area_fits<T>(p: Plane<T>)
    requires plane_ok(p)
    ensures p.cfg.width * p.cfg.height <= p.data.v@.len(), 0 <= p.cfg.width * p.cfg.height
{
    let c = p.cfg;
    assert(c.width * c.height <= c.stride * c.height) by(nonlinear_arith) requires 0 <= c.width <= c.stride, 0 <= c.height;
    assert(c.stride * c.height <= (c.yorigin + c.height) * c.stride) by(nonlinear_arith) requires 0 <= c.yorigin, 0 <= c.stride, 0 <= c.height;
    assert(0 <= c.width * c.height) by(nonlinear_arith) requires 0 <= c.width, 0 <= c.height;
}
'''

ENC_SPEC = r'''
// ---- C11: each subsampled chroma sample is the 4:4:4 chroma of a pixel INSIDE ITS OWN BLOCK
pub open spec fn visited(sy: int, sx: int, cy: int, cx: int, y: int, x: int) -> bool { cy * sy < y || (cy * sy == y && cx * sx < x) }
pub open spec fn blk_ok<T: Pixel>(pl: Seq<T>, stride: int, input: Seq<[f32; 3]>, w: int, h: int, c: YuvConfig, cy: int, cx: int, k: int) -> bool {
    exists|py: int, px: int| 0 <= py < h && 0 <= px < w && py / pow2(c.subsampling_y as int) == cy && px / pow2(c.subsampling_x as int) == cx
        && pl[cell(cy, stride, cx)] == chroma_q::<T>(c, input[#[trigger] cell(py, w, px)], k)
}
pub open spec fn blocks_done<T: Pixel>(u: Seq<T>, us: int, v: Seq<T>, vs: int, input: Seq<[f32; 3]>, w: int, h: int, c: YuvConfig, y: int, x: int) -> bool {
    let sy = pow2(c.subsampling_y as int); let sx = pow2(c.subsampling_x as int);
    forall|cy: int, cx: int| 0 <= cy < h / sy && 0 <= cx < w / sx && #[trigger] visited(sy, sx, cy, cx, y, x)
        ==> blk_ok(u, us, input, w, h, c, cy, cx, 1) && blk_ok(v, vs, input, w, h, c, cy, cx, 2)
}
pub open spec fn last_ok(last: usize, us: int, w: int, h: int, c: YuvConfig, y: int, x: int) -> bool {
    let sy = pow2(c.subsampling_y as int); let sx = pow2(c.subsampling_x as int);
    (last == usize::MAX && forall|cy: int, cx: int| 0 <= cy < h / sy && 0 <= cx < w / sx ==> !#[trigger] visited(sy, sx, cy, cx, y, x))
    || (exists|cy: int, cx: int| 0 <= cy < h / sy && 0 <= cx < w / sx && #[trigger] visited(sy, sx, cy, cx, y, x) && last == cell(cy, us, cx))
}
pub proof fn lemma_cell_inj(a: int, b: int, a2: int, b2: int, s: int, cw: int)
    by(nonlinear_arith)
    requires 0 <= b < cw, 0 <= b2 < cw, cw <= s, 0 <= a, 0 <= a2, a * s + b == a2 * s + b2
    ensures a == a2, b == b2
{}
pub proof fn lemma_div_bounds(y: int, d: int)
    requires 0 <= y, d > 0
    ensures (y / d) * d <= y < (y / d) * d + d, 0 <= y / d
{
    vstd::arithmetic::div_mod::lemma_fundamental_div_mod(y, d);
    vstd::arithmetic::div_mod::lemma_mod_bound(y, d);
    vstd::arithmetic::div_mod::lemma_div_pos_is_pos(y, d);
    assert(d * (y / d) == (y / d) * d) by(nonlinear_arith);
}
pub proof fn lemma_mul_div_exact(k: int, d: int)
    requires d > 0, 0 <= k
    ensures (k * d) / d == k
{ vstd::arithmetic::div_mod::lemma_div_multiples_vanish(k, d); assert(d * k == k * d) by(nonlinear_arith); }
pub proof fn lemma_lt_mul(cx: int, cw: int, sx: int, w: int)
    by(nonlinear_arith)
    requires 0 <= cx < cw, sx > 0, cw * sx == w
    ensures cx * sx < w, cx * sx + sx <= w
{}
pub proof fn lemma_exact_quot(w: int, sx: int)
    requires w >= 0, sx > 0, w % sx == 0
    ensures (w / sx) * sx == w
{ vstd::arithmetic::div_mod::lemma_fundamental_div_mod(w, sx); assert(sx * (w / sx) == (w / sx) * sx) by(nonlinear_arith); }

pub open spec fn maxcode(c: YuvConfig) -> int { pow2(c.bit_depth as int) - 1 }
pub open spec fn all_le<T: Pixel>(s: Seq<T>, m: int) -> bool { forall|i: int| 0 <= i < s.len() ==> 0 <= (#[trigger] s[i]).code() <= m }
pub open spec fn luma_q<T: Pixel>(c: YuvConfig, px: [f32; 3]) -> T {
    let so = s_scale_offset(false, c.bit_depth, c.full_range, false);
    s_from_f32_luma::<T>(px[0], so.0, so.1, c.bit_depth)
}
pub open spec fn chroma_q<T: Pixel>(c: YuvConfig, px: [f32; 3], k: int) -> T {
    let so = s_scale_offset(false, c.bit_depth, c.full_range, true);
    s_from_f32_chroma::<T>(px[k], so.0, so.1, c.bit_depth, c.full_range)
}
pub proof fn lemma_pow2_8(bd: u8)
    requires 8 <= bd <= 16
    ensures pow2(bd as int) - 1 >= 255
{
    vstd::arithmetic::power2::lemma2_to64();
    vstd::arithmetic::power2::lemma_pow2_strictly_increases(8, bd as nat + 1);
    if bd > 8 { vstd::arithmetic::power2::lemma_pow2_strictly_increases(8, bd as nat); }
}
// plane_ok for a freshly allocated plane
pub proof fn lemma_new_plane_ok<T>(p: Plane<T>)
    requires cfg_post(p.cfg, p.cfg.width, p.cfg.height, p.cfg.xdec, p.cfg.ydec, 0, 0), p.data.v@.len() == p.cfg.stride * p.cfg.alloc_height,
             p.data.v@.len() <= usize::MAX
    ensures plane_ok(p), origin(p.cfg) == 0
{
    assert(0 * p.cfg.stride == 0) by(nonlinear_arith);
    assert((0 + p.cfg.height) * p.cfg.stride == p.cfg.stride * p.cfg.height) by(nonlinear_arith);
    assert(0 <= p.cfg.stride * p.cfg.height) by(nonlinear_arith) requires 0 <= p.cfg.stride, 0 <= p.cfg.height;
}
'''

def contracts():
    t = {}
    t['ycbcr_to_ypbpr'] = C(
        attrs=['#[verifier::loop_isolation(false)]'],
        requires=['yuv_wf(*input)'],
        ensures=[
            # C11: width*height pixels, row-major, pixel (x,y) is the 1x1 conversion of (Y(x,y), U/V(x>>ss_x, y>>ss_y));
            # stated over origin-relative samples => independent of padding, stride and padding contents.
            'r@.len() == input.data.planes[0].cfg.width * input.data.planes[0].cfg.height',
            'forall|y: int, x: int| 0 <= y < input.data.planes[0].cfg.height && 0 <= x < input.data.planes[0].cfg.width '
            '==> ypbpr_at(*input, y, x, #[trigger] r@[cell(y, input.data.planes[0].cfg.width as int, x)])'],
        inserts=[
            ('let mut output', 'before',
             '    proof { lemma_area_fits(input.data.planes[0]); }'),
            ('for y in ', 'loop',
             '''        invariant
            output@.len() == w * h,
            forall|yy: int, xx: int| 0 <= yy < y && 0 <= xx < w ==> ypbpr_at(*input, yy, xx, #[trigger] output@[cell(yy, w as int, xx)]),'''),
            ('for x in ', 'loop',
             '''            invariant
                output@.len() == w * h,
                forall|yy: int, xx: int| 0 <= yy < y && 0 <= xx < w ==> ypbpr_at(*input, yy, xx, #[trigger] output@[cell(yy, w as int, xx)]),
                forall|xx: int| 0 <= xx < x ==> ypbpr_at(*input, y as int, xx, #[trigger] output@[cell(y as int, w as int, xx)]),'''),
            ('let output_pos', 'before',
             '''                proof {
                    let p = input.data.planes;
                    lemma_cell(y as int, h as int, w as int, x as int);
                    lemma_sample_in_bounds(p[0], y as int, x as int);
                    lemma_shr_is_div(y, ss_y); lemma_shr_is_div(x, ss_x);
                    lemma_sub_lt(y as int, h as int, pow2(ss_y as int)); lemma_sub_lt(x as int, w as int, pow2(ss_x as int));
                    lemma_sample_in_bounds(p[1], y as int / pow2(ss_y as int), x as int / pow2(ss_x as int));
                    lemma_sample_in_bounds(p[2], y as int / pow2(ss_y as int), x as int / pow2(ss_x as int));
                }
                let ghost old_output = output@;'''),
        ],
    )
    t['ypbpr_to_ycbcr'] = C(
        attrs=['#[verifier::loop_isolation(false)]'],
        requires=[
            # established by the callers from the Rgb invariant (data.len() == width*height, checked in Rgb::new)
            'input@.len() == width * height', 'width * height <= usize::MAX',
            'config.subsampling_x < 64', 'config.subsampling_y < 64', '8 <= config.bit_depth <= 16',
            # ASSUMPTION: the plane allocations fit the address space (see Plane::new); T is u8 or u16
            '(width + 128) * height <= usize::MAX', 'width + 128 <= usize::MAX',
            # degenerate images (width 0 with height > 0) make v_frame's PlaneIter panic inside Yuv::new for 16-bit storage
            'width > 0 || height == 0'],
        ensures=[
            # C02/C11: requested config (after Unspecified resolution) and dimensions, plane sizes (w>>ss_x, h>>ss_y)
            'r.config == fix_spec(config, width as int, height as int)',
            'r.data.planes[0].cfg.width == width && r.data.planes[0].cfg.height == height',
            'r.data.planes[1].cfg.width == width as int / pow2(config.subsampling_x as int) && r.data.planes[1].cfg.height == height as int / pow2(config.subsampling_y as int)',
            'r.data.planes[2].cfg.width == r.data.planes[1].cfg.width && r.data.planes[2].cfg.height == r.data.planes[1].cfg.height',
            'yuv_wf(r)',
            # C13: only valid codes
            'all_le(r.data.planes[0].data.v@, maxcode(config)) && all_le(r.data.planes[1].data.v@, maxcode(config)) && all_le(r.data.planes[2].data.v@, maxcode(config))',
            # C11: every chroma sample is the quantised chroma of a pixel inside its own block (both chroma planes)
            'origin(r.data.planes[1].cfg) == 0 && origin(r.data.planes[2].cfg) == 0',
            'forall|cy: int, cx: int| 0 <= cy < height as int / pow2(config.subsampling_y as int) && 0 <= cx < width as int / pow2(config.subsampling_x as int) ==> '
            '#[trigger] blk_ok(r.data.planes[1].data.v@, r.data.planes[1].cfg.stride as int, input@, width as int, height as int, config, cy, cx, 1) '
            '&& blk_ok(r.data.planes[2].data.v@, r.data.planes[2].cfg.stride as int, input@, width as int, height as int, config, cy, cx, 2)',
            # C11: luma plane is the pointwise quantisation of the input, row-major
            'forall|y: int, x: int| 0 <= y < height && 0 <= x < width ==> '
            '#[trigger] sample(r.data.planes[0], y, x) == luma_q::<T>(config, input@[cell(y, width as int, x)])'],
        rewrites=[
            (r'assert!\(\s*(width % \(1 << ss_x\) == 0 && height % \(1 << ss_y\) == 0),\s*"[^"]*"\s*\);',
             r'proof { lemma_shl_is_pow2(ss_x); lemma_shl_is_pow2(ss_y); }\n    checked_assert(\1);', 'R-assert: `assert!(cond, msg)` -> checked_assert(cond) (returns only if cond holds)', 'optional'),
            (r'let \(y_plane, rest\) = output\.planes\.split_first_mut\(\)\.expect\("has 3 planes"\);\s*'
             r'let \(u_plane, rest\) = rest\.split_first_mut\(\)\.expect\("has 3 planes"\);\s*'
             r'let \(v_plane, _\) = rest\.split_first_mut\(\)\.expect\("has 3 planes"\);',
             'let (y_plane, u_plane, v_plane) = split3_mut(&mut output.planes);',
             'R-split3: three `split_first_mut().expect(..)` lines -> split3_mut(&mut output.planes)'),
            (r'usize::from\((ss_[xy])\)', r'(\1 as usize)', 'R-from: `usize::from(u8)` -> `as usize`'),
        ],
        inserts=[
            ('let chroma_width', 'before',
             '    proof { lemma_shr_is_div(width, ss_x); lemma_shr_is_div(height, ss_y); T::ax_size(); }'),
            ('let mut output', 'before',
             '''    proof {
        let cw = (width >> ss_x) as int; let ch = (height >> ss_y) as int;
        vstd::arithmetic::div_mod::lemma_div_is_ordered_by_denominator(width as int, 1, pow2(ss_x as int));
        vstd::arithmetic::div_mod::lemma_div_is_ordered_by_denominator(height as int, 1, pow2(ss_y as int));
        vstd::arithmetic::div_mod::lemma_div_basics(width as int); vstd::arithmetic::div_mod::lemma_div_basics(height as int);
        vstd::arithmetic::div_mod::lemma_div_pos_is_pos(width as int, pow2(ss_x as int));
        vstd::arithmetic::div_mod::lemma_div_pos_is_pos(height as int, pow2(ss_y as int));
        assert((cw + 128) * ch <= (width + 128) * height) by(nonlinear_arith) requires 0 <= cw <= width, 0 <= ch <= height;
    }'''),
            ('let y_stride', 'before',
             '''    proof {
        lemma_new_plane_ok(*y_plane); lemma_new_plane_ok(*u_plane); lemma_new_plane_ok(*v_plane);
        lemma_pow2_8(bd);
    }
    let ghost yp0 = *y_plane; let ghost up0 = *u_plane; let ghost vp0 = *v_plane;'''),
            ('for y in ', 'loop',
             '''        invariant
            y_origin@.len() == yp0.data.v@.len(), u_origin@.len() == up0.data.v@.len(), v_origin@.len() == vp0.data.v@.len(),
            all_le(y_origin@, maxcode(config)), all_le(u_origin@, maxcode(config)), all_le(v_origin@, maxcode(config)),
            forall|yy: int, xx: int| 0 <= yy < y && 0 <= xx < width ==> (#[trigger] y_origin@[cell(yy, y_stride as int, xx)]) == luma_q::<T>(config, input@[cell(yy, width as int, xx)]),
            blocks_done(u_origin@, u_stride as int, v_origin@, v_stride as int, input@, width as int, height as int, config, y as int, 0),
            last_ok(last_uv_pos, u_stride as int, width as int, height as int, config, y as int, 0),'''),
            ('for x in ', 'loop',
             '''            invariant
                y_origin@.len() == yp0.data.v@.len(), u_origin@.len() == up0.data.v@.len(), v_origin@.len() == vp0.data.v@.len(),
                all_le(y_origin@, maxcode(config)), all_le(u_origin@, maxcode(config)), all_le(v_origin@, maxcode(config)),
                forall|yy: int, xx: int| 0 <= yy < y && 0 <= xx < width ==> (#[trigger] y_origin@[cell(yy, y_stride as int, xx)]) == luma_q::<T>(config, input@[cell(yy, width as int, xx)]),
                forall|xx: int| 0 <= xx < x ==> (#[trigger] y_origin@[cell(y as int, y_stride as int, xx)]) == luma_q::<T>(config, input@[cell(y as int, width as int, xx)]),
                blocks_done(u_origin@, u_stride as int, v_origin@, v_stride as int, input@, width as int, height as int, config, y as int, x as int),
                last_ok(last_uv_pos, u_stride as int, width as int, height as int, config, y as int, x as int),'''),
            ('let input_pos', 'before',
             '''                proof {
                    lemma_cell(y as int, height as int, width as int, x as int);
                    assert(height as int * width as int == width as int * height as int) by(nonlinear_arith);
                    lemma_sample_in_bounds(yp0, y as int, x as int);
                    lemma_shr_is_div(y, ss_y); lemma_shr_is_div(x, ss_x);
                    lemma_sub_lt(y as int, height as int, pow2(ss_y as int)); lemma_sub_lt(x as int, width as int, pow2(ss_x as int));
                    lemma_sample_in_bounds(up0, y as int / pow2(ss_y as int), x as int / pow2(ss_x as int));
                    lemma_sample_in_bounds(vp0, y as int / pow2(ss_y as int), x as int / pow2(ss_x as int));
                }'''),
            (r're:^\s*if .*last_uv_pos', 'before',
             '''                proof {
                    assert forall|yy: int, xx: int| ((0 <= yy < y && 0 <= xx < width) || (yy == y && 0 <= xx < x))
                        implies cell(yy, y_stride as int, xx) != cell(y as int, y_stride as int, x as int) by {
                        if yy < y { lemma_cell_lt(yy, y as int, y_stride as int, xx, x as int); }
                    }
                }'''),
            (r're:^\s*if .*last_uv_pos', 'before', '''                let ghost last0 = last_uv_pos; let ghost u0 = u_origin@; let ghost v0 = v_origin@;'''),
            (r're:^\s*last_uv_pos = ', 'after+3', '''            proof {
                let sy = pow2(ss_y as int); let sx = pow2(ss_x as int); let w = width as int; let h = height as int;
                lemma_exact_quot(w, sx);
                assert forall|cy2: int, cx2: int| 0 <= cy2 < h / sy && 0 <= cx2 < w / sx implies
                    (#[trigger] visited(sy, sx, cy2, cx2, y as int + 1, 0) <==> visited(sy, sx, cy2, cx2, y as int, w)) by { lemma_lt_mul(cx2, w / sx, sx, w); }
                if exists|cy3: int, cx3: int| 0 <= cy3 < h / sy && 0 <= cx3 < w / sx && #[trigger] visited(sy, sx, cy3, cx3, y as int, w) && last_uv_pos == cell(cy3, u_stride as int, cx3) {
                    let (cy3, cx3) = choose|cy3: int, cx3: int| 0 <= cy3 < h / sy && 0 <= cx3 < w / sx && #[trigger] visited(sy, sx, cy3, cx3, y as int, w) && last_uv_pos == cell(cy3, u_stride as int, cx3);
                    lemma_lt_mul(cx3, w / sx, sx, w);
                    assert(visited(sy, sx, cy3, cx3, y as int + 1, 0));
                } else {
                    assert forall|cy2: int, cx2: int| 0 <= cy2 < h / sy && 0 <= cx2 < w / sx implies !#[trigger] visited(sy, sx, cy2, cx2, y as int + 1, 0) by {
                        lemma_lt_mul(cx2, w / sx, sx, w);
                        if visited(sy, sx, cy2, cx2, y as int + 1, 0) { assert(visited(sy, sx, cy2, cx2, y as int, w)); }
                    }
                }
                assert(last_ok(last_uv_pos, u_stride as int, w, h, config, y as int + 1, 0));
            }'''),
            (r're:^\s*last_uv_pos = ', 'after+1', '''                proof {
                    let sy = pow2(ss_y as int); let sx = pow2(ss_x as int); let w = width as int; let h = height as int;
                    let us = u_stride as int; let vs = v_stride as int; let cw = w / sx; let chh = h / sy;
                    let cy = y as int / sy; let cx = x as int / sx;
                    lemma_div_bounds(y as int, sy); lemma_div_bounds(x as int, sx);
                    lemma_exact_quot(w, sx); lemma_exact_quot(h, sy);
                    assert(cw <= us && cw <= vs);
                    assert(visited(sy, sx, cy, cx, y as int, x as int + 1));
                    assert forall|cy2: int, cx2: int| 0 <= cy2 < chh && 0 <= cx2 < cw && #[trigger] visited(sy, sx, cy2, cx2, y as int, x as int + 1)
                        implies blk_ok(u_origin@, us, input@, w, h, config, cy2, cx2, 1) && blk_ok(v_origin@, vs, input@, w, h, config, cy2, cx2, 2) by {
                        if cy2 == cy && cx2 == cx {
                            if last0 != u_pos {
                                assert(cell(y as int, w, x as int) == input_pos);
                                assert(u_origin@[cell(cy, us, cx)] == chroma_q::<T>(config, input@[cell(y as int, w, x as int)], 1));
                                assert(v_origin@[cell(cy, vs, cx)] == chroma_q::<T>(config, input@[cell(y as int, w, x as int)], 2));
                            } else {
                                // nothing written: the block was reached before (last0 names a visited position with the same index)
                                let (cy3, cx3) = choose|cy3: int, cx3: int| 0 <= cy3 < chh && 0 <= cx3 < cw && #[trigger] visited(sy, sx, cy3, cx3, y as int, x as int) && last0 == cell(cy3, us, cx3);
                                lemma_cell_inj(cy3, cx3, cy, cx, us, cw);
                                assert(visited(sy, sx, cy, cx, y as int, x as int));
                            }
                        } else {
                            if !visited(sy, sx, cy2, cx2, y as int, x as int) {
                                // newly reached blocks start exactly at (y, x): that is the current block
                                assert(cy2 * sy == y && cx2 * sx == x);
                                lemma_mul_div_exact(cy2, sy); lemma_mul_div_exact(cx2, sx);
                            }
                            if last0 != u_pos {
                                if cy2 != cy || cx2 != cx { if cell(cy2, us, cx2) == cell(cy, us, cx) { lemma_cell_inj(cy2, cx2, cy, cx, us, cw); } if cell(cy2, vs, cx2) == cell(cy, vs, cx) { lemma_cell_inj(cy2, cx2, cy, cx, vs, cw); } }
                                assert(u_origin@[cell(cy2, us, cx2)] == u0[cell(cy2, us, cx2)]);
                                assert(v_origin@[cell(cy2, vs, cx2)] == v0[cell(cy2, vs, cx2)]);
                                assert(blk_ok(u0, us, input@, w, h, config, cy2, cx2, 1) && blk_ok(v0, vs, input@, w, h, config, cy2, cx2, 2));
                            }
                        }
                    }
                    assert(last_ok(last_uv_pos, us, w, h, config, y as int, x as int + 1)) by {
                        if last0 == u_pos {
                            let (cy3, cx3) = choose|cy3: int, cx3: int| 0 <= cy3 < chh && 0 <= cx3 < cw && #[trigger] visited(sy, sx, cy3, cx3, y as int, x as int) && last0 == cell(cy3, us, cx3);
                            assert(visited(sy, sx, cy3, cx3, y as int, x as int + 1));
                        }
                    }
                }'''),
            ('Yuv::new(output, config)', 'before',
             '''    proof {
        lemma_shl_is_pow2(ss_x); lemma_shl_is_pow2(ss_y); lemma_maxval(bd);
        let m = maxcode(config);
        assert(output.planes[0].data.v@ =~= y_origin@); assert(output.planes[1].data.v@ =~= u_origin@); assert(output.planes[2].data.v@ =~= v_origin@);
        assert(output.planes[0].cfg == yp0.cfg && output.planes[1].cfg == up0.cfg && output.planes[2].cfg == vp0.cfg);
        lemma_new_plane_ok(output.planes[0]); lemma_new_plane_ok(output.planes[1]); lemma_new_plane_ok(output.planes[2]);
        assert(!plane_exceeds(output.planes[0], m)) by {
            assert forall|x: int, y: int| 0 <= x < output.planes[0].cfg.width && 0 <= y < output.planes[0].cfg.height
                implies !((#[trigger] output.planes[0].data.v@[origin(output.planes[0].cfg) + y * output.planes[0].cfg.stride + x]).code() > m) by {
                lemma_sample_in_bounds(output.planes[0], y, x); } }
        assert(!plane_exceeds(output.planes[1], m)) by {
            assert forall|x: int, y: int| 0 <= x < output.planes[1].cfg.width && 0 <= y < output.planes[1].cfg.height
                implies !((#[trigger] output.planes[1].data.v@[origin(output.planes[1].cfg) + y * output.planes[1].cfg.stride + x]).code() > m) by {
                lemma_sample_in_bounds(output.planes[1], y, x); } }
        assert(!plane_exceeds(output.planes[2], m)) by {
            assert forall|x: int, y: int| 0 <= x < output.planes[2].cfg.width && 0 <= y < output.planes[2].cfg.height
                implies !((#[trigger] output.planes[2].data.v@[origin(output.planes[2].cfg) + y * output.planes[2].cfg.stride + x]).code() > m) by {
                lemma_sample_in_bounds(output.planes[2], y, x); } }
        assert(dec_ok(output, config));
        assert(chroma_size_ok(output, config));
        if width > 0 { lemma_exact_quot(width as int, pow2(ss_x as int)); assert(width as int / pow2(ss_x as int) > 0) by(nonlinear_arith) requires (width as int / pow2(ss_x as int)) * pow2(ss_x as int) == width, width > 0, pow2(ss_x as int) > 0; }
        else { lemma_div_bounds(0, pow2(ss_y as int)); lemma_div_bounds(height as int, pow2(ss_y as int)); assert(height as int / pow2(ss_y as int) == 0) by(nonlinear_arith) requires (height as int / pow2(ss_y as int)) * pow2(ss_y as int) <= height, height == 0, pow2(ss_y as int) > 0, 0 <= height as int / pow2(ss_y as int); }
        assert(nondegenerate(output));
        assert(accept(output, config));
        assert forall|cy: int, cx: int| 0 <= cy < height as int / pow2(ss_y as int) && 0 <= cx < width as int / pow2(ss_x as int) implies
            #[trigger] blk_ok(output.planes[1].data.v@, output.planes[1].cfg.stride as int, input@, width as int, height as int, config, cy, cx, 1)
            && blk_ok(output.planes[2].data.v@, output.planes[2].cfg.stride as int, input@, width as int, height as int, config, cy, cx, 2) by {
            lemma_exact_quot(height as int, pow2(ss_y as int)); lemma_lt_mul(cy, height as int / pow2(ss_y as int), pow2(ss_y as int), height as int);
            assert(visited(pow2(ss_y as int), pow2(ss_x as int), cy, cx, height as int, 0));
        }
        assert forall|y: int, x: int| 0 <= y < height && 0 <= x < width implies
            #[trigger] sample(output.planes[0], y, x) == luma_q::<T>(config, input@[cell(y, width as int, x)]) by {
            assert(sample(output.planes[0], y, x) == y_origin@[cell(y, y_stride as int, x)]);
        }
    }'''),
        ])
    return t

POST_WRITE = '''                proof {
                    assert forall|yy: int, xx: int| ((0 <= yy < y && 0 <= xx < w) || (yy == y && 0 <= xx < x))
                        implies cell(yy, w as int, xx) != cell(y as int, w as int, x as int) by {
                        if yy < y { lemma_cell_lt(yy, y as int, w as int, xx, x as int); }
                    }
                }'''

def rewrite_unchecked(txt, g):
    # R-unsafe: `unsafe { .. }` -> `{ .. }`
    txt, n = re.subn(r'\bunsafe\s*\{', '{', txt)
    g.dropped.append(f'R-unsafe: `unsafe` keyword dropped from {n} block(s) (the unsafe operations inside become stub calls whose preconditions are the safety contracts)')
    # writes first:  *X.get_unchecked_mut(I) = RHS;
    def wr(m):
        tgt, idx, rhs = m.group(1), m.group(2), m.group(3)
        fn = 'vec_set_unchecked_(&mut ' + tgt if tgt == 'output' else 'set_unchecked_(' + tgt
        return f'{fn}, {idx}, {rhs.strip()});'
    txt, n1 = re.subn(r'\*(\w+)\.get_unchecked_mut\((\w+)\)\s*=\s*(.*?);', wr, txt, flags=re.S)
    txt, n2 = re.subn(r'\*(\w+)\.get_unchecked\((\w+)\)', r'get_unchecked_(\1, \2)', txt)
    txt, n3 = re.subn(r'(?<![\w.])(\w+)\.get_unchecked\((\w+)\)', r'get_unchecked_ref_(\1, \2)', txt)
    n2 += n3
    g.dropped.append(f'R-unchecked: {n1} `*s.get_unchecked_mut(i) = v` -> set_unchecked_(s, i, v); {n2} `*s.get_unchecked(i)` -> get_unchecked_(s, i)')
    return txt, n1, n2

def add(repo, g):
    src = RustSrc(os.path.join(repo, REL))
    g.add(SPEC)
    table = contracts()
    # ---- ycbcr_to_ypbpr
    sp = src.find('fn', 'ycbcr_to_ypbpr', keep_attrs=True)
    txt = src.get(sp)
    txt, n1, n2 = rewrite_unchecked(txt, g)
    if (n1, n2) != (1, 3): raise AnchorLost(f'ycbcr_to_ypbpr: unchecked access sites changed ({n1},{n2})')
    # after the single write, restate that earlier cells are untouched
    k = txt.index('vec_set_unchecked_(&mut output')
    e = txt.index(';', txt.index(']', k)) + 1
    txt = txt[:e] + '\n' + POST_WRITE + txt[e:]
    c = table['ycbcr_to_ypbpr']
    g.under_contract.append({'fn': 'ycbcr_to_ypbpr', 'src': f'{REL}:{src.line_of(sp[0])}', 'requires': c.requires, 'ensures': c.ensures})
    g.add(apply_contract(txt, c, g.dropped))
    # ---- ypbpr_to_ycbcr
    g.add(ENC_SPEC)
    sp = src.find('fn', 'ypbpr_to_ycbcr', keep_attrs=True)
    txt = src.get(sp)
    txt, n1, n2 = rewrite_unchecked(txt, g)
    if (n1, n2) != (3, 1): raise AnchorLost(f'ypbpr_to_ycbcr: unchecked access sites changed ({n1},{n2})')
    c = table['ypbpr_to_ycbcr']
    g.under_contract.append({'fn': 'ypbpr_to_ycbcr', 'src': f'{REL}:{src.line_of(sp[0])}', 'requires': c.requires, 'ensures': c.ensures})
    g.add(apply_contract(txt, c, g.dropped))
