"""U-xyb (E2): constants and scalar kernels of src/rgb_xyb.rs under exact-real semantics (f32 -> Fx).
Rewrites: R-f32 (token + literals), R-constfn (`const NAME: T = e;` -> `fn NAME() -> T { e }`, uses `NAME` -> `NAME()`;
Fx arithmetic is not const-evaluable).  The two per-image functions (iterator loops + cbrtf) are not in this unit."""
import re, os
from rsx import RustSrc, AnchorLost
from vgen import C, Gen, apply_contract, strip_attrs_and_docs
import preamble
from polyproof import BARE_LEMMAS

REL = 'src/rgb_xyb.rs'
SCALARS = ['K_M02', 'K_M00', 'K_M01', 'K_M12', 'K_M10', 'K_M11', 'K_M20', 'K_M21', 'K_M22', 'K_B0', 'K_B1', 'K_B2']
ARRAYS = ['OPSIN_ABSORBANCE_MATRIX', 'OPSIN_ABSORBANCE_BIAS', 'INVERSE_OPSIN_ABSORBANCE_MATRIX', 'NEG_OPSIN_ABSORBANCE_BIAS']

SPEC = r'''
// ---- oracle: libjxl opsin absorbance matrix and bias, digits from the property statement (C04)
pub open spec fn jxl_a(i: int, j: int) -> real {
    if i == 0 { if j == 0 { 0.30real } else if j == 1 { 0.622real } else { 0.078real } }
    else if i == 1 { if j == 0 { 0.23real } else if j == 1 { 0.692real } else { 0.078real } }
    else { if j == 0 { 0.24342268924547819real } else if j == 1 { 0.20476744424496821real } else { 0.55180986650955360real } }
}
pub open spec fn jxl_bias() -> real { 0.0037930732552754493real }
pub open spec fn absr(x: real) -> real { if x < 0real { -x } else { x } }
'''

def build(repo):
    g = Gen('u_xyb')
    g.add(preamble.read('exact.rs')); g.add(preamble.fx('Fx', 'f32')); g.add(BARE_LEMMAS); g.add(SPEC)
    src = RustSrc(os.path.join(repo, REL))
    # every top-level f32 / [f32; N] constant of the file is extracted (the named ones are required, others may have been introduced)
    SC = list(SCALARS) + [n for n in re.findall(r'(?m)^const (\w+): f32 =', src.text) if n not in SCALARS]
    AR = list(ARRAYS) + [n for n in re.findall(r'(?m)^const (\w+): \[f32; \d+\] =', src.text) if n not in ARRAYS]
    def fxify(t):
        t = re.sub(r'\bf32\b', 'Fx', t)
        for n in SC + AR:
            t = re.sub(r'\b%s\b(?!\s*[:(])' % n, n + '()', t)
        return preamble.lit_rewrite(t)
    # ---- constants -> functions
    for n in SC:
        txt = src.get(src.find('const', n))
        m = re.match(r'const (\w+): f32 = (.*);\s*$', txt, re.S)
        if not m: raise AnchorLost(f'const {n} changed shape')
        body = fxify(m.group(2))
        g.add(f'pub open spec fn s_{n}() -> real {{ {spec_of(body)} }}\nfn {n}() -> (r: Fx) ensures r.val() == s_{n}() {{ {body} }}\n')
        g.under_contract.append({'fn': f'const {n}', 'src': f'{REL}:{src.line_of(src.find("const", n)[0])}', 'requires': [], 'ensures': [f'value == s_{n}() (the literal expression read exactly)']})
    for n in AR:
        txt = src.get(src.find('const', n))
        m = re.match(r'const (\w+): \[f32; (\d)\] = \[(.*)\];\s*$', txt, re.S)
        if not m: raise AnchorLost(f'const {n} changed shape')
        elems = [e.strip() for e in m.group(3).split(',') if e.strip()]
        k = int(m.group(2))
        if len(elems) != k: raise AnchorLost(f'const {n}: {len(elems)} elements')
        fe = [fxify(e) for e in elems]
        sp = ' else '.join(f'if i == {i} {{ {spec_of(e)} }}' for i, e in enumerate(fe[:-1])) + f' else {{ {spec_of(fe[-1])} }}'
        ens = ', '.join(f'r[{i}].val() == s_{n}({i})' for i in range(k))
        g.add(f'pub open spec fn s_{n}(i: int) -> real {{ {sp} }}\nfn {n}() -> (r: [Fx; {k}]) ensures {ens} {{ [{", ".join(fe)}] }}\n')
        g.under_contract.append({'fn': f'const {n}', 'src': f'{REL}:{src.line_of(src.find("const", n)[0])}', 'requires': [], 'ensures': ['element-wise value of the literal expressions']})
    g.dropped.append('R-constfn: the 12 scalar and 4 array constants of rgb_xyb.rs become functions returning the same literal expressions (Fx arithmetic is not const-evaluable); uses NAME -> NAME()')
    g.dropped.append('R-f32: rgb_xyb.rs token `f32` -> `Fx`, decimal literals -> exact rationals')
    # ---- kernels
    c1 = C(ensures=[f'r[{i}].val() == mix_spec(rgb[0].val(), rgb[1].val(), rgb[2].val(), {i})' for i in range(3)])
    c2 = C(ensures=['r[0].val() == 0.5real * (mixed[0].val() - mixed[1].val())', 'r[1].val() == 0.5real * (mixed[0].val() + mixed[1].val())', 'r[2].val() == mixed[2].val()'])
    for name, c in (('opsin_absorbance', c1), ('mixed_to_xyb', c2)):
        sp = src.find('fn', name, keep_attrs=True)
        txt = fxify(src.get(sp))
        g.under_contract.append({'fn': name, 'src': f'{REL}:{src.line_of(sp[0])}', 'requires': [], 'ensures': c.ensures})
        g.add(apply_contract(txt, c, g.dropped))
    g.add(LEMMAS)
    add_images(src, g, fxify)
    return g

# ----------------------------------------------------------------------------------------------------------------
# the two per-image functions (iterator loops over fixed-size arrays + one loop over the image)
def unroll_zip3(txt, g):
    """R-zip3: `for PAT in A.iter_mut().zip(B.iter())[.zip(C.iter())] { BODY }` over [_; 3] arrays (and
    `for v in &mut A { BODY }`) -> BODY written out for k = 0, 1, 2 with `*var` -> `ARRAY[k]`."""
    from rsx import _mask
    n = 0
    while True:
        m = re.search(r'for (\(\((\w+), (\w+)\), (\w+)\)|\((\w+), (\w+)\)) in\s+(\w+)\s*\.iter_mut\(\)\s*\.zip\((\w+)\.iter\(\)\)(?:\s*\.zip\((\w+)\.iter\(\)\))?\s*\{', txt)
        m2 = re.search(r'for (\w+) in &mut (\w+) \{', txt) if not m else None
        if not m and not m2: break
        mm = m or m2
        ob = mm.end() - 1
        depth, k = 0, ob
        mk = _mask(txt)
        while True:
            depth += (mk[k] == '{') - (mk[k] == '}')
            if depth == 0: break
            k += 1
        body = txt[ob + 1:k]
        if m:
            if m.group(2):   # triple
                subst = [(m.group(2), m.group(7)), (m.group(3), m.group(8)), (m.group(4), m.group(9))]
            else:
                subst = [(m.group(5), m.group(7)), (m.group(6), m.group(8))]
        else:
            if m2.group(2) == 'input': break    # the image loop is handled by pixloop
            subst = [(m2.group(1), m2.group(2))]
        out = ''
        for idx in range(3):
            b = body
            for var, arr in subst:
                b = re.sub(r'\*%s\b' % var, f'{arr}[{idx}]', b)
            out += '{' + b + '}\n'
        txt = txt[:mm.start()] + out + txt[k + 1:]
        n += 1
    txt = re.sub(r'(\w+\[\d\]) -= ([^;]+);', r'\1 = \1 - \2;', txt)      # R-opassign
    g.dropped.append(f'R-zip3: {n} loops over fixed [_;3] arrays (`iter_mut().zip(..)` / `for v in &mut arr`) written out for k = 0,1,2 with `*var` -> `array[k]`; `a -= b` -> `a = a - b`')
    return txt

def pixloop(txt, g, inv):
    """R-pixloop: `for pix in &mut input { BODY }` -> index loop over the Vec; inside BODY `pix` is a local copy `pix_`
    written back with `input.set(i_, pix_)` at the end of the iteration."""
    from rsx import _mask
    m = re.search(r'for pix in &mut input \{', txt)
    if not m: raise AnchorLost('per-image loop `for pix in &mut input` not found')
    ob = m.end() - 1
    mk = _mask(txt); depth, k = 0, ob
    while True:
        depth += (mk[k] == '{') - (mk[k] == '}')
        if depth == 0: break
        k += 1
    body = txt[ob + 1:k]
    body = re.sub(r'\*pix = ', 'pix_ = ', body)
    body = re.sub(r'opsin_absorbance\(pix\)', 'opsin_absorbance(&pix_)', body)
    body = re.sub(r'\bpix\[', 'pix_[', body)
    if re.search(r'\bpix\b', body): raise AnchorLost('per-image loop uses `pix` in an unknown way')
    new = ('let ghost input_0 = input@;\n    let mut i_: usize = 0;\n    while i_ < input.len()\n        invariant input@.len() == input_0.len(), 0 <= i_ <= input@.len(),\n'
           '            forall|k: int| i_ <= k < input@.len() ==> #[trigger] input@[k] == input_0[k],\n' + inv +
           '        decreases input@.len() - i_\n    {\n        let mut pix_ = input[i_];\n' + body + '\n        input.set(i_, pix_);\n        i_ += 1;\n    }')
    g.dropped.append('R-pixloop: `for pix in &mut input { .. }` -> index loop; `pix` is a local copy written back with input.set(i, pix) at the end of each iteration')
    return txt[:m.start()] + new + txt[k + 1:]

IMG_SPEC = r"""
// ---- C04 / C05: the per-image functions.  cbrtf is an uninterpreted function here (ideal-cube-root hypotheses are
// stated explicitly where a lemma needs them).
pub uninterp spec fn s_cbrt(x: real) -> real;
#[verifier::external_body]
fn cbrtf(x: Fx) -> (r: Fx) ensures r.val() == s_cbrt(x.val()) { unimplemented!() }
pub open spec fn pos(x: real) -> real { if x < 0real { 0real } else { x } }
// C04 as stated: (L,M,S) = cbrt(max(0, A*rgb + b)) - cbrt(b);  X = (L-M)/2, Y = (L+M)/2, B = S
pub open spec fn lms(r: real, g: real, b: real, i: int) -> real { s_cbrt(pos(mix_spec(r, g, b, i))) + (0real - s_cbrt(s_OPSIN_ABSORBANCE_BIAS(i))) }
pub open spec fn xyb_px(p: [Fx; 3], o: [Fx; 3]) -> bool {
    let (r, g, b) = (p[0].val(), p[1].val(), p[2].val());
    o[0].val() == 0.5real * (lms(r, g, b, 0) - lms(r, g, b, 1)) && o[1].val() == 0.5real * (lms(r, g, b, 0) + lms(r, g, b, 1)) && o[2].val() == lms(r, g, b, 2)
}
// inverse: un-mix, undo the bias shift, cube, remove the bias, multiply by the inverse matrix
pub open spec fn cube_unbias(t: real, i: int) -> real { let u = t - s_cbrt(s_NEG_OPSIN_ABSORBANCE_BIAS(i)); (u * u) * u + s_NEG_OPSIN_ABSORBANCE_BIAS(i) }
pub open spec fn inv_row(g0: real, g1: real, g2: real, i: int) -> real {
    s_INVERSE_OPSIN_ABSORBANCE_MATRIX(3 * i + 2) * g2 + (s_INVERSE_OPSIN_ABSORBANCE_MATRIX(3 * i + 1) * g1 + s_INVERSE_OPSIN_ABSORBANCE_MATRIX(3 * i) * g0)
}
pub open spec fn lrgb_px(p: [Fx; 3], o: [Fx; 3]) -> bool {
    let (x, y, b) = (p[0].val(), p[1].val(), p[2].val());
    let (g0, g1, g2) = (cube_unbias(y + x, 0), cube_unbias(y - x, 1), cube_unbias(b, 2));
    o[0].val() == inv_row(g0, g1, g2, 0) && o[1].val() == inv_row(g0, g1, g2, 1) && o[2].val() == inv_row(g0, g1, g2, 2)
}
"""

RT_LEMMA = r"""
// C05: with an IDEAL cube root (cube(cbrt(t)) == t, cbrt odd) the exact round trip of p in [0,1]^3 is p + E*p with
// E = INV*A - I, hence within 3e-6 of p (lemma_inverse_residual).  The hypotheses about s_cbrt are explicit.
pub open spec fn ideal_cbrt() -> bool {
    (forall|t: real| #[trigger] s_cbrt(t) * s_cbrt(t) * s_cbrt(t) == t) && (forall|t: real| #[trigger] s_cbrt(0real - t) == 0real - s_cbrt(t))
}
pub proof fn lemma_round_trip(p: [Fx; 3], x: [Fx; 3], o: [Fx; 3])
    requires ideal_cbrt(), xyb_px(p, x), lrgb_px(x, o),
             0real <= p[0].val() <= 1real, 0real <= p[1].val() <= 1real, 0real <= p[2].val() <= 1real,
    ensures absr(o[0].val() - p[0].val()) <= 0.000003real, absr(o[1].val() - p[1].val()) <= 0.000003real, absr(o[2].val() - p[2].val()) <= 0.000003real
{
    let (r, g, b) = (p[0].val(), p[1].val(), p[2].val());
    lemma_opsin_constants_are_jxl();
    // mixes are positive on the unit cube, so the clamp at 0 is inactive
    let m0 = mix_spec(r, g, b, 0); let m1 = mix_spec(r, g, b, 1); let m2 = mix_spec(r, g, b, 2);
    assert(s_OPSIN_ABSORBANCE_MATRIX(0) > 0real && s_OPSIN_ABSORBANCE_MATRIX(1) > 0real && s_OPSIN_ABSORBANCE_MATRIX(2) > 0real);
    assert(s_OPSIN_ABSORBANCE_MATRIX(3) > 0real && s_OPSIN_ABSORBANCE_MATRIX(4) > 0real && s_OPSIN_ABSORBANCE_MATRIX(5) > 0real);
    assert(s_OPSIN_ABSORBANCE_MATRIX(6) > 0real && s_OPSIN_ABSORBANCE_MATRIX(7) > 0real && s_OPSIN_ABSORBANCE_MATRIX(8) > 0real);
    assert(s_OPSIN_ABSORBANCE_BIAS(0) > 0real && s_OPSIN_ABSORBANCE_BIAS(1) > 0real && s_OPSIN_ABSORBANCE_BIAS(2) > 0real);
    lemma_pos_mix(r, g, b, 0); lemma_pos_mix(r, g, b, 1); lemma_pos_mix(r, g, b, 2);
    assert(m0 > 0real && m1 > 0real && m2 > 0real);
    let c0 = s_cbrt(m0); let c1 = s_cbrt(m1); let c2 = s_cbrt(m2);
    let cb = s_cbrt(s_OPSIN_ABSORBANCE_BIAS(0));
    assert(s_OPSIN_ABSORBANCE_BIAS(1) == s_OPSIN_ABSORBANCE_BIAS(0) && s_OPSIN_ABSORBANCE_BIAS(2) == s_OPSIN_ABSORBANCE_BIAS(0));
    assert(s_cbrt(s_NEG_OPSIN_ABSORBANCE_BIAS(0)) == 0real - cb);
    assert(s_cbrt(s_NEG_OPSIN_ABSORBANCE_BIAS(1)) == 0real - cb);
    assert(s_cbrt(s_NEG_OPSIN_ABSORBANCE_BIAS(2)) == 0real - cb);
    // un-mix and un-shift give back the cube roots of the mixes
    assert((x[1].val() + x[0].val()) - (0real - cb) == c0);
    assert((x[1].val() - x[0].val()) - (0real - cb) == c1);
    assert(x[2].val() - (0real - cb) == c2);
    assert(cube_unbias(x[1].val() + x[0].val(), 0) == m0 - s_OPSIN_ABSORBANCE_BIAS(0)) by { assert((c0 * c0) * c0 == m0); }
    assert(cube_unbias(x[1].val() - x[0].val(), 1) == m1 - s_OPSIN_ABSORBANCE_BIAS(1)) by { assert((c1 * c1) * c1 == m1); }
    assert(cube_unbias(x[2].val(), 2) == m2 - s_OPSIN_ABSORBANCE_BIAS(2)) by { assert((c2 * c2) * c2 == m2); }
    lemma_res_row0(); lemma_res_row1(); lemma_res_row2();
    lemma_rt_row(r, g, b, 0); lemma_rt_row(r, g, b, 1); lemma_rt_row(r, g, b, 2);
    lemma_abs_bound(res(0, 0), res(0, 1), res(0, 2), r, g, b); lemma_abs_bound(res(1, 0), res(1, 1), res(1, 2), r, g, b); lemma_abs_bound(res(2, 0), res(2, 1), res(2, 2), r, g, b);
}
pub proof fn lemma_pos_mix(r: real, g: real, b: real, i: int)
    requires 0 <= i < 3, r >= 0real, g >= 0real, b >= 0real
    ensures mix_spec(r, g, b, i) >= s_OPSIN_ABSORBANCE_BIAS(i), s_OPSIN_ABSORBANCE_BIAS(i) > 0real
{
    let a0 = s_OPSIN_ABSORBANCE_MATRIX(3 * i); let a1 = s_OPSIN_ABSORBANCE_MATRIX(3 * i + 1); let a2 = s_OPSIN_ABSORBANCE_MATRIX(3 * i + 2);
    assert(a0 > 0real && a1 > 0real && a2 > 0real) by { assert(i == 0 || i == 1 || i == 2); }
    assert(a0 * r >= 0real) by(nonlinear_arith) requires a0 > 0real, r >= 0real;
    assert(a1 * g >= 0real) by(nonlinear_arith) requires a1 > 0real, g >= 0real;
    assert(a2 * b >= 0real) by(nonlinear_arith) requires a2 > 0real, b >= 0real;
    assert(i == 0 || i == 1 || i == 2);
}
// row i of INV * (A p) equals p_i + sum_j res(i,j) p_j: a polynomial identity in the 18 constants and r, g, b (generated proof)
@RTROW@
"""

def rt_row_lemma():
    """inv_row(A p) == p_i + sum_j res(i,j) p_j as a generated polynomial identity over atoms (9 A, 3 INV of row i, r,g,b)."""
    from polyproof import Atom, identity_proof
    A = [[Atom(f'a{i}{j}') for j in range(3)] for i in range(3)]
    N = [Atom(f'n{j}') for j in range(3)]
    r, g, b = Atom('r'), Atom('g'), Atom('b')
    p = [r, g, b]
    mixm = [A[i][0] * r + (A[i][1] * g + (A[i][2] * b)) for i in range(3)]       # mix - bias
    lhs = N[2] * mixm[2] + (N[1] * mixm[1] + N[0] * mixm[0])
    rhs = (N[0] * A[0][0] + N[1] * A[1][0] + N[2] * A[2][0]) * r + (N[0] * A[0][1] + N[1] * A[1][1] + N[2] * A[2][1]) * g + (N[0] * A[0][2] + N[1] * A[1][2] + N[2] * A[2][2]) * b
    params = ', '.join(f'a{i}{j}: real' for i in range(3) for j in range(3)) + ', n0: real, n1: real, n2: real, r: real, g: real, b: real'
    txt, tl, tr = identity_proof('poly_rt_row', params, lhs, rhs)
    wrap = """
pub proof fn lemma_rt_row(r: real, g: real, b: real, i: int)
    requires 0 <= i < 3
    ensures inv_row(mix_spec(r, g, b, 0) - s_OPSIN_ABSORBANCE_BIAS(0), mix_spec(r, g, b, 1) - s_OPSIN_ABSORBANCE_BIAS(1), mix_spec(r, g, b, 2) - s_OPSIN_ABSORBANCE_BIAS(2), i)
        == (if i == 0 { r } else if i == 1 { g } else { b }) + (res(i, 0) * r + res(i, 1) * g + res(i, 2) * b)
{
    let a = |k: int| s_OPSIN_ABSORBANCE_MATRIX(k);
    let n0 = s_INVERSE_OPSIN_ABSORBANCE_MATRIX(3 * i); let n1 = s_INVERSE_OPSIN_ABSORBANCE_MATRIX(3 * i + 1); let n2 = s_INVERSE_OPSIN_ABSORBANCE_MATRIX(3 * i + 2);
    poly_rt_row(a(0), a(1), a(2), a(3), a(4), a(5), a(6), a(7), a(8), n0, n1, n2, r, g, b);
    let e0 = n0 * a(0) + n1 * a(3) + n2 * a(6); let e1 = n0 * a(1) + n1 * a(4) + n2 * a(7); let e2 = n0 * a(2) + n1 * a(5) + n2 * a(8);
    assert(res(i, 0) == e0 - (if i == 0 { 1real } else { 0real }));
    assert(res(i, 1) == e1 - (if i == 1 { 1real } else { 0real }));
    assert(res(i, 2) == e2 - (if i == 2 { 1real } else { 0real }));
    pp_distr_l(res(i, 0), if i == 0 { 1real } else { 0real }, r); pp_distr_l(res(i, 1), if i == 1 { 1real } else { 0real }, g); pp_distr_l(res(i, 2), if i == 2 { 1real } else { 0real }, b);
    pp_one(r); pp_one(g); pp_one(b); pp_zero(r); pp_zero(g); pp_zero(b);
}
pub proof fn lemma_abs_bound(e0: real, e1: real, e2: real, r: real, g: real, b: real)
    requires absr(e0) <= 0.000001real, absr(e1) <= 0.000001real, absr(e2) <= 0.000001real, 0real <= r <= 1real, 0real <= g <= 1real, 0real <= b <= 1real
    ensures absr(e0 * r + e1 * g + e2 * b) <= 0.000003real
{
    assert(absr(e0 * r) <= 0.000001real) by(nonlinear_arith) requires absr(e0) <= 0.000001real, 0real <= r <= 1real;
    assert(absr(e1 * g) <= 0.000001real) by(nonlinear_arith) requires absr(e1) <= 0.000001real, 0real <= g <= 1real;
    assert(absr(e2 * b) <= 0.000001real) by(nonlinear_arith) requires absr(e2) <= 0.000001real, 0real <= b <= 1real;
}
"""
    return txt + wrap

def add_images(src, g, fxify):
    g.add(IMG_SPEC)
    inv1 = '            forall|k: int| 0 <= k < i_ ==> xyb_px(input_0[k], #[trigger] input@[k]),\n'
    inv2 = '            forall|k: int| 0 <= k < i_ ==> lrgb_px(input_0[k], #[trigger] input@[k]),\n'
    for name, inv, post in (('linear_rgb_to_xyb', inv1, 'xyb_px'), ('xyb_to_linear_rgb', inv2, 'lrgb_px')):
        sp = src.find('fn', name, keep_attrs=True)
        txt = src.get(sp)
        txt, n = re.subn(r'\(mut input: Vec<\[f32; 3\]>\)', '(input0: Vec<[f32; 3]>)', txt)
        if n != 1: raise AnchorLost(f'{name} signature changed')
        txt = txt.replace('{', '{\n    let mut input = input0;', 1)
        txt = unroll_zip3(txt, g)
        txt = pixloop(txt, g, inv)
        txt = fxify(txt)
        c = C(attrs=['#[verifier::loop_isolation(false)]'], ensures=['r@.len() == input0@.len()',
                       # C04/C05/C11: pixel i of the output is the per-pixel definition applied to pixel i of the input
                       f'forall|k: int| 0 <= k < input0@.len() ==> {post}(input0@[k], #[trigger] r@[k])'])
        g.under_contract.append({'fn': name, 'src': f'{REL}:{src.line_of(sp[0])}', 'requires': [], 'ensures': c.ensures})
        g.add(apply_contract(txt, c, g.dropped))
    g.add(RT_LEMMA.replace('@RTROW@', rt_row_lemma()))
    g.assumed.append('cbrtf is an uninterpreted function of its argument in U-xyb; lemma_round_trip states its ideal-cube-root hypotheses explicitly')

def spec_of(expr):
    """exec Fx expression made of lit(), NAME(), + - unary minus  ->  the same expression over reals."""
    def dec(m):
        n, d = int(m.group(1)), int(m.group(2))
        k = len(str(d)) - 1
        assert d == 10 ** k
        sn = str(n).rjust(k + 1, '0')
        return f'{sn[:-k] if k else sn}.{sn[-k:] if k else "0"}real'
    e = re.sub(r'Fx::lit\((\d+), (\d+)\)', dec, expr)
    e = re.sub(r'\b([A-Z][A-Z0-9_]+)\(\)', r's_\1()', e)      # a constant defined from other constants
    return e

LEMMAS = r'''
// the opsin mix  A*rgb + b  over the code's own constants (C04: X=(L-M)/2, Y=(L+M)/2, B=S follow from mixed_to_xyb)
pub open spec fn mix_spec(r: real, g: real, b: real, i: int) -> real {
    s_OPSIN_ABSORBANCE_MATRIX(3 * i) * r + (s_OPSIN_ABSORBANCE_MATRIX(3 * i + 1) * g + (s_OPSIN_ABSORBANCE_MATRIX(3 * i + 2) * b + s_OPSIN_ABSORBANCE_BIAS(i)))
}
// C04: the code's constants are libjxl's (within 1e-7, bias within 1e-8: a few f32 ulps; larger deviations would eat into the 2e-6 budget of C04), every row sums to exactly 1, the three biases are equal
pub proof fn lemma_opsin_constants_are_jxl()
    ensures
        forall|i: int, j: int| 0 <= i < 3 && 0 <= j < 3 ==> absr(#[trigger] s_OPSIN_ABSORBANCE_MATRIX(3 * i + j) - jxl_a(i, j)) <= 0.0000001real,
        forall|i: int| 0 <= i < 3 ==> absr(#[trigger] s_OPSIN_ABSORBANCE_BIAS(i) - jxl_bias()) <= 0.00000001real,
        forall|i: int| 0 <= i < 3 ==> #[trigger] s_OPSIN_ABSORBANCE_MATRIX(3 * i) + s_OPSIN_ABSORBANCE_MATRIX(3 * i + 1) + s_OPSIN_ABSORBANCE_MATRIX(3 * i + 2) == 1real,
        forall|i: int| 0 <= i < 3 ==> #[trigger] s_NEG_OPSIN_ABSORBANCE_BIAS(i) == -s_OPSIN_ABSORBANCE_BIAS(i),
{
    assert forall|i: int, j: int| 0 <= i < 3 && 0 <= j < 3 implies absr(#[trigger] s_OPSIN_ABSORBANCE_MATRIX(3 * i + j) - jxl_a(i, j)) <= 0.0000001real by {
        assert(i == 0 || i == 1 || i == 2); assert(j == 0 || j == 1 || j == 2);
    }
}
// C16: grey (g,g,g) gives three equal mixes g + bias, hence X = 0 and Y = B after mixed_to_xyb; black gives the bias itself
pub proof fn lemma_grey_mix(g: real)
    ensures mix_spec(g, g, g, 0) == g + s_OPSIN_ABSORBANCE_BIAS(0), mix_spec(g, g, g, 1) == mix_spec(g, g, g, 0), mix_spec(g, g, g, 2) == mix_spec(g, g, g, 0)
{
    lemma_opsin_constants_are_jxl();
    lemma_row(g, 0); lemma_row(g, 1); lemma_row(g, 2);
}
pub proof fn lemma_row(g: real, i: int)
    requires 0 <= i < 3
    ensures mix_spec(g, g, g, i) == (s_OPSIN_ABSORBANCE_MATRIX(3 * i) + s_OPSIN_ABSORBANCE_MATRIX(3 * i + 1) + s_OPSIN_ABSORBANCE_MATRIX(3 * i + 2)) * g + s_OPSIN_ABSORBANCE_BIAS(i)
{
    let a = s_OPSIN_ABSORBANCE_MATRIX(3 * i); let b = s_OPSIN_ABSORBANCE_MATRIX(3 * i + 1); let c = s_OPSIN_ABSORBANCE_MATRIX(3 * i + 2);
    pp_distr_l(a + b, c, g); pp_distr_l(a, b, g);
}
// C05: residual of the inverse literals against the forward literals:  E = INV * A - I,  row sums of |E| <= 2e-5,
// so with an ideal cube root the exact round trip of p in [0,1]^3 is p + E*p with error <= 2e-5 < 5e-5.
pub open spec fn res(i: int, j: int) -> real {
    s_INVERSE_OPSIN_ABSORBANCE_MATRIX(3 * i) * s_OPSIN_ABSORBANCE_MATRIX(j) + s_INVERSE_OPSIN_ABSORBANCE_MATRIX(3 * i + 1) * s_OPSIN_ABSORBANCE_MATRIX(3 + j)
        + s_INVERSE_OPSIN_ABSORBANCE_MATRIX(3 * i + 2) * s_OPSIN_ABSORBANCE_MATRIX(6 + j) - (if i == j { 1real } else { 0real })
}
pub proof fn lemma_res_00() ensures absr(res(0, 0)) <= 0.000001real { assert(absr(res(0, 0)) <= 0.000001real) by(compute); }
pub proof fn lemma_res_01() ensures absr(res(0, 1)) <= 0.000001real { assert(absr(res(0, 1)) <= 0.000001real) by(compute); }
pub proof fn lemma_res_02() ensures absr(res(0, 2)) <= 0.000001real { assert(absr(res(0, 2)) <= 0.000001real) by(compute); }
pub proof fn lemma_res_row0() ensures absr(res(0, 0)) <= 0.000001real, absr(res(0, 1)) <= 0.000001real, absr(res(0, 2)) <= 0.000001real
{ lemma_res_00(); lemma_res_01(); lemma_res_02(); }
pub proof fn lemma_res_10() ensures absr(res(1, 0)) <= 0.000001real { assert(absr(res(1, 0)) <= 0.000001real) by(compute); }
pub proof fn lemma_res_11() ensures absr(res(1, 1)) <= 0.000001real { assert(absr(res(1, 1)) <= 0.000001real) by(compute); }
pub proof fn lemma_res_12() ensures absr(res(1, 2)) <= 0.000001real { assert(absr(res(1, 2)) <= 0.000001real) by(compute); }
pub proof fn lemma_res_row1() ensures absr(res(1, 0)) <= 0.000001real, absr(res(1, 1)) <= 0.000001real, absr(res(1, 2)) <= 0.000001real
{ lemma_res_10(); lemma_res_11(); lemma_res_12(); }
pub proof fn lemma_res_20() ensures absr(res(2, 0)) <= 0.000001real { assert(absr(res(2, 0)) <= 0.000001real) by(compute); }
pub proof fn lemma_res_21() ensures absr(res(2, 1)) <= 0.000001real { assert(absr(res(2, 1)) <= 0.000001real) by(compute); }
pub proof fn lemma_res_22() ensures absr(res(2, 2)) <= 0.000001real { assert(absr(res(2, 2)) <= 0.000001real) by(compute); }
pub proof fn lemma_res_row2() ensures absr(res(2, 0)) <= 0.000001real, absr(res(2, 1)) <= 0.000001real, absr(res(2, 2)) <= 0.000001real
{ lemma_res_20(); lemma_res_21(); lemma_res_22(); }
pub proof fn lemma_inverse_residual()
    ensures forall|i: int| 0 <= i < 3 ==> absr(#[trigger] res(i, 0)) + absr(res(i, 1)) + absr(res(i, 2)) <= 0.00002real
{
    lemma_res_row0(); lemma_res_row1(); lemma_res_row2();
}
'''
