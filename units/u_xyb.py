"""U-xyb (E2): constants and scalar kernels of src/rgb_xyb.rs under exact-real semantics (f32 -> Fx).
Rewrites: R-f32 (token + literals), R-constfn (`const NAME: T = e;` -> `fn NAME() -> T { e }`, uses `NAME` -> `NAME()`;
Fx arithmetic is not const-evaluable).  The two per-image functions (iterator loops + cbrtf) are not in this unit."""
import re, os
from rsx import RustSrc, AnchorLost
from vgen import C, Gen, apply_contract, strip_attrs_and_docs
import preamble
from polyproof import BARE_LEMMAS

REL = 'src/rgb_xyb.rs'
SCALARS = ['K_M02', 'K_M00', 'K_M01', 'K_M12', 'K_M10', 'K_M11', 'K_M20', 'K_M21', 'K_M22', 'K_B0', 'K_B1', 'K_B2']
ARRAYS = ['OPSIN_ABSORBANCE_MATRIX', 'OPSIN_ABSORBANCE_BIAS', 'INVERSE_OPSIN_ABSORBANCE_MATRIX', 'NEG_OPSIN_ABSORBANCE_BIAS']

SPEC = r'''
// ---- oracle: libjxl opsin absorbance matrix and bias, digits from the property statement (C04)
pub open spec fn jxl_a(i: int, j: int) -> real {
    if i == 0 { if j == 0 { 0.30real } else if j == 1 { 0.622real } else { 0.078real } }
    else if i == 1 { if j == 0 { 0.23real } else if j == 1 { 0.692real } else { 0.078real } }
    else { if j == 0 { 0.24342268924547819real } else if j == 1 { 0.20476744424496821real } else { 0.55180986650955360real } }
}
pub open spec fn jxl_bias() -> real { 0.0037930732552754493real }
pub open spec fn absr(x: real) -> real { if x < 0real { -x } else { x } }
'''

def build(repo):
    g = Gen('u_xyb')
    g.add(preamble.read('exact.rs')); g.add(preamble.fx('Fx', 'f32')); g.add(BARE_LEMMAS); g.add(SPEC)
    src = RustSrc(os.path.join(repo, REL))
    def fxify(t):
        t = re.sub(r'\bf32\b', 'Fx', t)
        for n in SCALARS + ARRAYS:
            t = re.sub(r'\b%s\b(?!\s*[:(])' % n, n + '()', t)
        return preamble.lit_rewrite(t)
    # ---- constants -> functions
    for n in SCALARS:
        txt = src.get(src.find('const', n))
        m = re.match(r'const (\w+): f32 = (.*);\s*$', txt, re.S)
        if not m: raise AnchorLost(f'const {n} changed shape')
        body = fxify(m.group(2))
        g.add(f'pub open spec fn s_{n}() -> real {{ {spec_of(body)} }}\nfn {n}() -> (r: Fx) ensures r.val() == s_{n}() {{ {body} }}\n')
        g.under_contract.append({'fn': f'const {n}', 'src': f'{REL}:{src.line_of(src.find("const", n)[0])}', 'requires': [], 'ensures': [f'value == s_{n}() (the literal expression read exactly)']})
    for n in ARRAYS:
        txt = src.get(src.find('const', n))
        m = re.match(r'const (\w+): \[f32; (\d)\] = \[(.*)\];\s*$', txt, re.S)
        if not m: raise AnchorLost(f'const {n} changed shape')
        elems = [e.strip() for e in m.group(3).split(',') if e.strip()]
        k = int(m.group(2))
        if len(elems) != k: raise AnchorLost(f'const {n}: {len(elems)} elements')
        fe = [fxify(e) for e in elems]
        sp = ' else '.join(f'if i == {i} {{ {spec_of(e)} }}' for i, e in enumerate(fe[:-1])) + f' else {{ {spec_of(fe[-1])} }}'
        ens = ', '.join(f'r[{i}].val() == s_{n}({i})' for i in range(k))
        g.add(f'pub open spec fn s_{n}(i: int) -> real {{ {sp} }}\nfn {n}() -> (r: [Fx; {k}]) ensures {ens} {{ [{", ".join(fe)}] }}\n')
        g.under_contract.append({'fn': f'const {n}', 'src': f'{REL}:{src.line_of(src.find("const", n)[0])}', 'requires': [], 'ensures': ['element-wise value of the literal expressions']})
    g.dropped.append('R-constfn: the 12 scalar and 4 array constants of rgb_xyb.rs become functions returning the same literal expressions (Fx arithmetic is not const-evaluable); uses NAME -> NAME()')
    g.dropped.append('R-f32: rgb_xyb.rs token `f32` -> `Fx`, decimal literals -> exact rationals')
    # ---- kernels
    c1 = C(ensures=[f'r[{i}].val() == mix_spec(rgb[0].val(), rgb[1].val(), rgb[2].val(), {i})' for i in range(3)])
    c2 = C(ensures=['r[0].val() == 0.5real * (mixed[0].val() - mixed[1].val())', 'r[1].val() == 0.5real * (mixed[0].val() + mixed[1].val())', 'r[2].val() == mixed[2].val()'])
    for name, c in (('opsin_absorbance', c1), ('mixed_to_xyb', c2)):
        sp = src.find('fn', name, keep_attrs=True)
        txt = fxify(src.get(sp))
        g.under_contract.append({'fn': name, 'src': f'{REL}:{src.line_of(sp[0])}', 'requires': [], 'ensures': c.ensures})
        g.add(apply_contract(txt, c, g.dropped))
    g.add(LEMMAS)
    return g

def spec_of(expr):
    """exec Fx expression made of lit(), NAME(), + - unary minus  ->  the same expression over reals."""
    def dec(m):
        n, d = int(m.group(1)), int(m.group(2))
        k = len(str(d)) - 1
        assert d == 10 ** k
        sn = str(n).rjust(k + 1, '0')
        return f'{sn[:-k] if k else sn}.{sn[-k:] if k else "0"}real'
    e = re.sub(r'Fx::lit\((\d+), (\d+)\)', dec, expr)
    e = re.sub(r'\b(K_\w+)\(\)', r's_\1()', e)
    return e

LEMMAS = r'''
// the opsin mix  A*rgb + b  over the code's own constants (C04: X=(L-M)/2, Y=(L+M)/2, B=S follow from mixed_to_xyb)
pub open spec fn mix_spec(r: real, g: real, b: real, i: int) -> real {
    s_OPSIN_ABSORBANCE_MATRIX(3 * i) * r + (s_OPSIN_ABSORBANCE_MATRIX(3 * i + 1) * g + (s_OPSIN_ABSORBANCE_MATRIX(3 * i + 2) * b + s_OPSIN_ABSORBANCE_BIAS(i)))
}
// C04: the code's constants are libjxl's (within 1e-7, bias within 1e-8: a few f32 ulps; larger deviations would eat into the 2e-6 budget of C04), every row sums to exactly 1, the three biases are equal
pub proof fn lemma_opsin_constants_are_jxl()
    ensures
        forall|i: int, j: int| 0 <= i < 3 && 0 <= j < 3 ==> absr(#[trigger] s_OPSIN_ABSORBANCE_MATRIX(3 * i + j) - jxl_a(i, j)) <= 0.0000001real,
        forall|i: int| 0 <= i < 3 ==> absr(#[trigger] s_OPSIN_ABSORBANCE_BIAS(i) - jxl_bias()) <= 0.00000001real,
        forall|i: int| 0 <= i < 3 ==> #[trigger] s_OPSIN_ABSORBANCE_MATRIX(3 * i) + s_OPSIN_ABSORBANCE_MATRIX(3 * i + 1) + s_OPSIN_ABSORBANCE_MATRIX(3 * i + 2) == 1real,
        forall|i: int| 0 <= i < 3 ==> #[trigger] s_NEG_OPSIN_ABSORBANCE_BIAS(i) == -s_OPSIN_ABSORBANCE_BIAS(i),
{
    assert forall|i: int, j: int| 0 <= i < 3 && 0 <= j < 3 implies absr(#[trigger] s_OPSIN_ABSORBANCE_MATRIX(3 * i + j) - jxl_a(i, j)) <= 0.0000001real by {
        assert(i == 0 || i == 1 || i == 2); assert(j == 0 || j == 1 || j == 2);
    }
}
// C16: grey (g,g,g) gives three equal mixes g + bias, hence X = 0 and Y = B after mixed_to_xyb; black gives the bias itself
pub proof fn lemma_grey_mix(g: real)
    ensures mix_spec(g, g, g, 0) == g + s_OPSIN_ABSORBANCE_BIAS(0), mix_spec(g, g, g, 1) == mix_spec(g, g, g, 0), mix_spec(g, g, g, 2) == mix_spec(g, g, g, 0)
{
    lemma_opsin_constants_are_jxl();
    lemma_row(g, 0); lemma_row(g, 1); lemma_row(g, 2);
}
pub proof fn lemma_row(g: real, i: int)
    requires 0 <= i < 3
    ensures mix_spec(g, g, g, i) == (s_OPSIN_ABSORBANCE_MATRIX(3 * i) + s_OPSIN_ABSORBANCE_MATRIX(3 * i + 1) + s_OPSIN_ABSORBANCE_MATRIX(3 * i + 2)) * g + s_OPSIN_ABSORBANCE_BIAS(i)
{
    let a = s_OPSIN_ABSORBANCE_MATRIX(3 * i); let b = s_OPSIN_ABSORBANCE_MATRIX(3 * i + 1); let c = s_OPSIN_ABSORBANCE_MATRIX(3 * i + 2);
    pp_distr_l(a + b, c, g); pp_distr_l(a, b, g);
}
// C05: residual of the inverse literals against the forward literals:  E = INV * A - I,  row sums of |E| <= 2e-5,
// so with an ideal cube root the exact round trip of p in [0,1]^3 is p + E*p with error <= 2e-5 < 5e-5.
pub open spec fn res(i: int, j: int) -> real {
    s_INVERSE_OPSIN_ABSORBANCE_MATRIX(3 * i) * s_OPSIN_ABSORBANCE_MATRIX(j) + s_INVERSE_OPSIN_ABSORBANCE_MATRIX(3 * i + 1) * s_OPSIN_ABSORBANCE_MATRIX(3 + j)
        + s_INVERSE_OPSIN_ABSORBANCE_MATRIX(3 * i + 2) * s_OPSIN_ABSORBANCE_MATRIX(6 + j) - (if i == j { 1real } else { 0real })
}
pub proof fn lemma_res_00() ensures absr(res(0, 0)) <= 0.000001real { assert(absr(res(0, 0)) <= 0.000001real) by(compute); }
pub proof fn lemma_res_01() ensures absr(res(0, 1)) <= 0.000001real { assert(absr(res(0, 1)) <= 0.000001real) by(compute); }
pub proof fn lemma_res_02() ensures absr(res(0, 2)) <= 0.000001real { assert(absr(res(0, 2)) <= 0.000001real) by(compute); }
pub proof fn lemma_res_row0() ensures absr(res(0, 0)) <= 0.000001real, absr(res(0, 1)) <= 0.000001real, absr(res(0, 2)) <= 0.000001real
{ lemma_res_00(); lemma_res_01(); lemma_res_02(); }
pub proof fn lemma_res_10() ensures absr(res(1, 0)) <= 0.000001real { assert(absr(res(1, 0)) <= 0.000001real) by(compute); }
pub proof fn lemma_res_11() ensures absr(res(1, 1)) <= 0.000001real { assert(absr(res(1, 1)) <= 0.000001real) by(compute); }
pub proof fn lemma_res_12() ensures absr(res(1, 2)) <= 0.000001real { assert(absr(res(1, 2)) <= 0.000001real) by(compute); }
pub proof fn lemma_res_row1() ensures absr(res(1, 0)) <= 0.000001real, absr(res(1, 1)) <= 0.000001real, absr(res(1, 2)) <= 0.000001real
{ lemma_res_10(); lemma_res_11(); lemma_res_12(); }
pub proof fn lemma_res_20() ensures absr(res(2, 0)) <= 0.000001real { assert(absr(res(2, 0)) <= 0.000001real) by(compute); }
pub proof fn lemma_res_21() ensures absr(res(2, 1)) <= 0.000001real { assert(absr(res(2, 1)) <= 0.000001real) by(compute); }
pub proof fn lemma_res_22() ensures absr(res(2, 2)) <= 0.000001real { assert(absr(res(2, 2)) <= 0.000001real) by(compute); }
pub proof fn lemma_res_row2() ensures absr(res(2, 0)) <= 0.000001real, absr(res(2, 1)) <= 0.000001real, absr(res(2, 2)) <= 0.000001real
{ lemma_res_20(); lemma_res_21(); lemma_res_22(); }
pub proof fn lemma_inverse_residual()
    ensures forall|i: int| 0 <= i < 3 ==> absr(#[trigger] res(i, 0)) + absr(res(i, 1)) + absr(res(i, 2)) <= 0.00002real
{
    lemma_res_row0(); lemma_res_row1(); lemma_res_row2();
}
'''
