"""U-hsl (E2): lrgb_to_hsl (src/hsl.rs) and hsl_to_lrgb (src/linear_rgb.rs) under exact-real semantics.
Decides (C17): the hexcone definition of L, S, H; component ranges; L = 0 -> black, L = 1 -> white; and the exact
RGB -> HSL -> RGB round trip on the region where the code's fuzzy (f32::EPSILON) branch tests coincide with the true
maximum channel.  `%` is an uninterpreted remainder with the usual division axiom (assumed).

Rewrites: R-f32 (token + literals), R-range (`(a..b).contains(&x)` -> `a <= x && x < b`), f32::EPSILON -> its value 2^-23.
"""
import re, os
from rsx import RustSrc, AnchorLost
from vgen import C, Gen, apply_contract
import preamble
from polyproof import BARE_LEMMAS

EPS = '0.00000011920929real'

PRE = r'''
// ---- f32 `%` (fmod): uninterpreted remainder; assumed: a = q*b + r with integer q >= 0 and 0 <= r < b for a >= 0, b > 0
pub uninterp spec fn s_rem(a: real, b: real) -> real;
pub uninterp spec fn s_quot(a: real, b: real) -> int;
impl RemSpecImpl<Fx> for Fx {
    open spec fn obeys_rem_spec() -> bool { true }
    open spec fn rem_req(self, rhs: Fx) -> bool { true }
    open spec fn rem_spec(self, rhs: Fx) -> Fx { Fx { v: Ghost(s_rem(self.v@, rhs.v@)) } }
}
impl core::ops::Rem<Fx> for Fx { type Output = Fx;
    fn rem(self, rhs: Fx) -> (r: Fx) { Fx { v: Ghost(s_rem(self.v@, rhs.v@)) } } }
#[verifier::external_body]
pub proof fn ax_rem(a: real, b: real)
    requires a >= 0real, b > 0real
    ensures a == (s_quot(a, b) as real) * b + s_rem(a, b), 0real <= s_rem(a, b) < b, s_quot(a, b) >= 0
{}
impl Fx {
    pub fn min(self, o: Self) -> (r: Self) ensures r.v@ == (if self.v@ <= o.v@ { self.v@ } else { o.v@ })
    { Fx { v: Ghost(if self.v@ <= o.v@ { self.v@ } else { o.v@ }) } }
}
pub open spec fn absr(x: real) -> real { if x < 0real { -x } else { x } }
pub open spec fn max3(r: real, g: real, b: real) -> real { let m = if r >= g { r } else { g }; if m >= b { m } else { b } }
pub open spec fn min3(r: real, g: real, b: real) -> real { let m = if r <= g { r } else { g }; if m <= b { m } else { b } }
pub open spec fn eps() -> real { @EPS@ }
// ---- the hexcone model (from the property statement)
pub open spec fn hex_l(r: real, g: real, b: real) -> real { (max3(r, g, b) + min3(r, g, b)) / 2real }
pub open spec fn hex_s(r: real, g: real, b: real) -> real { (max3(r, g, b) - min3(r, g, b)) / (1real - absr(2real * hex_l(r, g, b) - 1real)) }
// hue (degrees) by the sextant of the maximum channel, before wrapping into [0, 360)
pub open spec fn hex_h_raw(r: real, g: real, b: real) -> real {
    let c = max3(r, g, b) - min3(r, g, b);
    if max3(r, g, b) == r { 60real * ((g - b) / c) } else if max3(r, g, b) == g { 60real * (2real + (b - r) / c) } else { 60real * (4real + (r - g) / c) }
}
pub open spec fn wrap360(h: real) -> real { let h1 = if h < 0real { h + 360real } else { h }; if h1 >= 360real { 0real } else { h1 } }
pub open spec fn unit(x: real) -> bool { 0real <= x <= 1real }
'''

LEMMAS = r'''
pub proof fn lemma_div_mul2(n: real, d: real)
    by(nonlinear_arith)
    requires d != 0real
    ensures d * (n / d) == n, (n / d) * d == n
{}
pub proof fn lemma_div_le1(n: real, d: real)
    by(nonlinear_arith)
    requires 0real <= n <= d, d > 0real
    ensures 0real <= n / d <= 1real
{}
pub proof fn lemma_div_pm1(n: real, d: real)
    by(nonlinear_arith)
    requires 0real - d <= n <= d, d > 0real
    ensures 0real - 1real <= n / d <= 1real
{}
pub proof fn lemma_div60(h: real)
    ensures (60real * h) / 60real == h
{}
// C17: S of the hexcone never exceeds 1 on the unit cube (so the `.min(1.0)` added by fix F4 only absorbs rounding)
pub proof fn lemma_hex_s_le_1(r: real, g: real, b: real)
    requires unit(r), unit(g), unit(b), eps() <= hex_l(r, g, b) <= 1real - eps()
    ensures 0real <= hex_s(r, g, b) <= 1real
{
    let mx = max3(r, g, b); let mn = min3(r, g, b); let l = hex_l(r, g, b);
    let d = 1real - absr(2real * l - 1real);
    assert(d > 0real);
    assert(mx - mn <= d);
    lemma_div_le1(mx - mn, d);
}
'''

RT = r'''
pub proof fn lemma_rem2(a: real, k: int)
    requires k >= 0, (2 * k) as real <= a < (2 * k + 2) as real
    ensures s_rem(a, 2real) == a - (2 * k) as real
{
    ax_rem(a, 2real);
    let q = s_quot(a, 2real);
    assert((q as real) * 2real == (2 * q) as real);
    assert(q == k);
}
// C17 round trip (exact reals): RGB -> HSL -> RGB returns the pixel, on the region where the code's fuzzy maximum tests select the
// true maximum channel, the chroma is at least EPSILON and L is at least EPSILON away from 0 and 1.
pub proof fn lemma_hsl_round_trip(r: real, g: real, b: real)
    requires unit(r), unit(g), unit(b), hue_region(r, g, b), eps() <= hex_l(r, g, b) <= 1real - eps()
    ensures ({ let h = wrap360(hex_h_raw(r, g, b)); let s = hex_s(r, g, b); let l = hex_l(r, g, b);
               inv_px(h, s, l, 0) == r && inv_px(h, s, l, 1) == g && inv_px(h, s, l, 2) == b })
{
    let mx = max3(r, g, b); let mn = min3(r, g, b); let c = mx - mn; let l = hex_l(r, g, b);
    let d = 1real - absr(2real * l - 1real);
    assert(d > 0real);
    let s = hex_s(r, g, b);
    lemma_div_mul2(c, d);                       // d * (c/d) == c : the chroma is recovered exactly
    assert((1real - absr(2real * l + (0real - 1real))) * s == c);
    assert(l - c / 2real == mn);                // the lightness offset is the minimum channel
    let hraw = hex_h_raw(r, g, b); let h = wrap360(hraw); let hp = h / 60real;
    if mx == r {
        let t = (g - b) / c;
        lemma_div_pm1(g - b, c); lemma_div_mul2(g - b, c);
        if g >= b {
            assert(t >= 0real) by(nonlinear_arith) requires t == (g - b) / c, g - b >= 0real, c > 0real;
            assert(hp == t);
            if t < 1real { lemma_rem2(hp, 0); } else { lemma_rem2(hp, 0); assert(t == 1real); assert(g - b == c) by(nonlinear_arith) requires c * t == g - b, t == 1real; }
        } else {
            assert(t < 0real) by(nonlinear_arith) requires t == (g - b) / c, g - b < 0real, c > 0real;
            assert(hp == t + 6real);
            lemma_rem2(hp, 2);
            assert(c * (0real - t) == b - g) by(nonlinear_arith) requires c * t == g - b;
            pp_distr_r(c, 1real, 0real - (t + 1real));
        }
    } else if mx == g {
        let u = (b - r) / c;
        lemma_div_pm1(b - r, c); lemma_div_mul2(b - r, c);
        assert(hp == 2real + u);
        if b >= r {
            assert(u >= 0real) by(nonlinear_arith) requires u == (b - r) / c, b - r >= 0real, c > 0real;
            if u < 1real { lemma_rem2(hp, 1); } else { lemma_rem2(hp, 1); assert(u == 1real); assert(b - r == c) by(nonlinear_arith) requires c * u == b - r, u == 1real; }
        } else {
            assert(u < 0real) by(nonlinear_arith) requires u == (b - r) / c, b - r < 0real, c > 0real;
            lemma_rem2(hp, 0);
            assert(c * (0real - u) == r - b) by(nonlinear_arith) requires c * u == b - r;
        }
    } else {
        let w = (r - g) / c;
        lemma_div_pm1(r - g, c); lemma_div_mul2(r - g, c);
        assert(hp == 4real + w);
        if r >= g {
            assert(w >= 0real) by(nonlinear_arith) requires w == (r - g) / c, r - g >= 0real, c > 0real;
            assert(w < 1real) by { if w >= 1real { assert(r - g >= c) by(nonlinear_arith) requires c * w == r - g, w >= 1real, c > 0real; } }
            lemma_rem2(hp, 2);
        } else {
            assert(w < 0real) by(nonlinear_arith) requires w == (r - g) / c, r - g < 0real, c > 0real;
            lemma_rem2(hp, 1);
            assert(c * (0real - w) == g - r) by(nonlinear_arith) requires c * w == r - g;
        }
    }
}
'''

def contracts():
    t = {}
    t['lrgb_to_hsl'] = C(
        ensures=[
            # L = (max+min)/2 exactly
            'r[2].val() == hex_l(rgb[0].val(), rgb[1].val(), rgb[2].val())',
            # S = (max-min)/(1-|2L-1|) (capped at 1) away from black/white, 0 within EPSILON of them
            'absr(r[2].val()) >= eps() && absr(r[2].val() - 1real) >= eps() ==> '
            'r[1].val() == (if hex_s(rgb[0].val(), rgb[1].val(), rgb[2].val()) <= 1real { hex_s(rgb[0].val(), rgb[1].val(), rgb[2].val()) } else { 1real })',
            'absr(r[2].val()) < eps() || absr(r[2].val() - 1real) < eps() ==> r[1].val() == 0real',
            # H by the sextant of the maximum channel, wrapped into [0,360); grey (chroma < EPSILON) has hue 0
            'max3(rgb[0].val(), rgb[1].val(), rgb[2].val()) - min3(rgb[0].val(), rgb[1].val(), rgb[2].val()) < eps() ==> r[0].val() == 0real',
            # where the fuzzy maximum tests of the code coincide with the true maximum channel:
            'hue_region(rgb[0].val(), rgb[1].val(), rgb[2].val()) ==> r[0].val() == wrap360(hex_h_raw(rgb[0].val(), rgb[1].val(), rgb[2].val()))',
            # ranges
            '0real <= r[0].val() < 360real',
        ],
        inserts=[('let h = if c.abs()', 'before', '''    proof {
        let (rr, gg, bb) = (rgb[0].val(), rgb[1].val(), rgb[2].val());
        let cc = c.val();
        if cc >= eps() {
            lemma_div_pm1(gg - bb, cc); lemma_div_pm1(bb - rr, cc); lemma_div_pm1(rr - gg, cc);
        }
    }''')])
    t['hsl_to_lrgb'] = C(
        ensures=[
            # the type's documentation: L = 0 is black and L = 1 is white, whatever H and S are
            'hsl[2].val() == 0real ==> r[0].val() == 0real && r[1].val() == 0real && r[2].val() == 0real',
            'hsl[2].val() == 1real ==> r[0].val() == 1real && r[1].val() == 1real && r[2].val() == 1real',
            # hexcone inverse
            'r[0].val() == inv_px(hsl[0].val(), hsl[1].val(), hsl[2].val(), 0) && r[1].val() == inv_px(hsl[0].val(), hsl[1].val(), hsl[2].val(), 1) '
            '&& r[2].val() == inv_px(hsl[0].val(), hsl[1].val(), hsl[2].val(), 2)',
        ],
        inserts=[('let h_prime', 'before', '''    proof {
        let l = hsl[2].val(); let f = 1real - absr(2real * l + (0real - 1real));
        if l == 0real || l == 1real { assert(f == 0real); pp_zero(hsl[1].val()); assert(c.val() == 0real); }
    }'''),
                 ('let (r1, g1, b1)', 'before', '''    proof {
        let l = hsl[2].val();
        if l == 0real || l == 1real { pp_zero(1real - absr(s_rem(h_prime.val(), 2real) - 1real)); assert(x.val() == 0real); }
    }''')])
    return t

SPEC2 = r'''
// region where `(v - rgb[k]).abs() < EPSILON` selects the true maximum channel: either R is the maximum, or the maximum exceeds R
// (resp. R and G) by at least EPSILON; and the chroma is at least EPSILON
pub open spec fn hue_region(r: real, g: real, b: real) -> bool {
    let mx = max3(r, g, b); let c = mx - min3(r, g, b);
    c >= eps() && (mx == r || (mx == g && mx - r >= eps()) || (mx == b && mx - r >= eps() && mx - g >= eps()))
}
// hexcone inverse (as a function of H, S, L), component k
pub open spec fn inv_px(h: real, s: real, l: real, k: int) -> real {
    let c = (1real - absr(2real * l + (0real - 1real))) * s;
    let hp = h / 60real;
    let x = c * (1real - absr(s_rem(hp, 2real) - 1real));
    let m = l - c / 2real;
    let (r1, g1, b1) = if 0real <= hp < 1real { (c, x, 0real) } else if 1real <= hp < 2real { (x, c, 0real) } else if 2real <= hp < 3real { (0real, c, x) }
        else if 3real <= hp < 4real { (0real, x, c) } else if 4real <= hp < 5real { (x, 0real, c) } else { (c, 0real, x) };
    if k == 0 { r1 + m } else if k == 1 { g1 + m } else { b1 + m }
}
'''

def build(repo):
    g = Gen('u_hsl')
    g.add(preamble.read('exact.rs')); g.add(preamble.fx('Fx', 'f32')); g.add(BARE_LEMMAS)
    g.add(PRE.replace('@EPS@', EPS)); g.add(SPEC2); g.add(LEMMAS)
    def fxify(t):
        t = t.replace('f32::EPSILON', '0.00000011920929f32')
        t = re.sub(r'\((\d+\.\d+)\.\.(\d+\.\d+)\)\.contains\(&(\w+)\)', r'(\1 <= \3 && \3 < \2)', t)
        if '.contains(' in t: raise AnchorLost('unknown range test')
        t = re.sub(r'\bf32\b', 'Fx', t)
        return preamble.lit_rewrite(t)
    table = contracts()
    for rel, name in (('src/hsl.rs', 'lrgb_to_hsl'), ('src/linear_rgb.rs', 'hsl_to_lrgb')):
        src = RustSrc(os.path.join(repo, rel))
        sp = src.find('fn', name, keep_attrs=True)
        txt = fxify(src.get(sp))
        c = table[name]
        g.under_contract.append({'fn': name, 'src': f'{rel}:{src.line_of(sp[0])}', 'requires': [], 'ensures': c.ensures})
        g.add(apply_contract(txt, c, g.dropped))
    g.add(RT)
    g.dropped += ['R-f32 on lrgb_to_hsl / hsl_to_lrgb; R-range: `(a..b).contains(&x)` -> `a <= x && x < b`; `f32::EPSILON` -> 2^-23']
    g.assumed += ['f32 `%` is an uninterpreted remainder with the division axiom ax_rem (a = q*b + r, 0 <= r < b, q >= 0 integer, for a >= 0, b > 0)']
    return g
