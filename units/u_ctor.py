"""U-ctor (E1): Rgb / LinearRgb / Xyb / Hsl constructors and accessors (C12, C11 width/height pass-through, C15 for Rgb::new)."""
import re, os
from rsx import RustSrc, AnchorLost
from vgen import C, Gen, apply_contract, strip_attrs_and_docs
from u_color import av_enums
from u_planes import pubfields

SPEC = r'''
pub open spec fn rgb_transfer_spec(t: TransferCharacteristic) -> TransferCharacteristic {
    if t == TransferCharacteristic::Unspecified { TransferCharacteristic::SRGB } else { t }
}
pub open spec fn rgb_primaries_spec(p: ColorPrimaries) -> ColorPrimaries {
    if p == ColorPrimaries::Unspecified { ColorPrimaries::BT709 } else { p }
}
'''

def simple_ctor(ty):
    return C(ensures=[
        # C12: accept iff the data length equals the mathematical product width*height (no wrap-around)
        'r is Ok <==> data@.len() == width * height',
        'r is Err ==> r->Err_0 == CreationError::ResolutionMismatch',
        'r is Ok ==> r->Ok_0.data == data && r->Ok_0.width == width && r->Ok_0.height == height'])

def build(repo):
    g = Gen('u_ctor')
    g.add('global size_of usize == 8;\n')
    enums, ver = av_enums(repo)
    g.add(enums); g.add('use av_data::pixel::{ColorPrimaries, MatrixCoefficients, TransferCharacteristic};\n')
    add(repo, g)
    return g

def add(repo, g):
    esrc = RustSrc(os.path.join(repo, 'src/errors.rs'))
    g.add('#[derive(Clone, Copy, PartialEq, Eq)]\n' + strip_attrs_and_docs(esrc.get(esrc.find('enum', 'CreationError'))))
    g.add(SPEC)
    for f, ty in (('rgb', 'Rgb'), ('linear_rgb', 'LinearRgb'), ('xyb', 'Xyb'), ('hsl', 'Hsl')):
        rel = f'src/{f}.rs'
        src = RustSrc(os.path.join(repo, rel))
        st = pubfields(strip_attrs_and_docs(src.get(src.find('struct', ty))))
        st = re.sub(r'(?m)^\s*//.*\n', '', st)
        g.add(st)
        im = src.find_impl(r'^impl %s$' % ty)
        parts = []
        fns = ['new', 'data', 'into_data', 'width', 'height'] + (['transfer', 'primaries'] if ty == 'Rgb' else [])
        for fn in fns:
            sp = src.find('fn', fn, within=(im[2], im[3]), keep_attrs=True)
            txt = src.get(sp)
            if fn == 'new':
                c = simple_ctor(ty)
                if ty == 'Rgb':
                    txt, n = re.subn(r'log::warn!\((?:[^()]|\([^()]*\))*\);', '', txt)
                    if n != 2: raise AnchorLost('Rgb::new: log::warn! sites changed')
                    # `mut transfer` / `mut primaries` parameters -> locals
                    txt, n = re.subn(r'mut transfer: TransferCharacteristic,\s*mut primaries: ColorPrimaries,',
                                     'transfer0: TransferCharacteristic, primaries0: ColorPrimaries,', txt)
                    if n != 1: raise AnchorLost('Rgb::new signature changed')
                    txt = txt.replace('{', '{\n        let mut transfer = transfer0; let mut primaries = primaries0;', 1)
                    g.dropped.append('R-logwarn: 2 `log::warn!` removed from Rgb::new; R-mutparam: `mut transfer`/`mut primaries` parameters bound to locals')
                    c.ensures.append('r is Ok ==> r->Ok_0.transfer == rgb_transfer_spec(transfer0) && r->Ok_0.primaries == rgb_primaries_spec(primaries0)')
                    # C15: never Unspecified
                    c.ensures.append('r is Ok ==> r->Ok_0.transfer != TransferCharacteristic::Unspecified && r->Ok_0.primaries != ColorPrimaries::Unspecified')
            elif fn == 'data':
                c = C(ensures=['r@ == self.data@'])
            elif fn == 'into_data':
                c = C(ensures=['r == self.data'])
            else:
                c = C(ensures=[f'r == self.{fn}'], strip_const=True)
            g.under_contract.append({'fn': f'{ty}::{fn}', 'src': f'{rel}:{src.line_of(sp[0])}', 'requires': c.requires, 'ensures': c.ensures})
            parts.append(apply_contract(txt, c, g.dropped))
        g.add(f'impl {ty} {{\n' + '\n'.join(parts) + '\n}\n')
    g.dropped.append('R-pub: struct fields made pub; data_mut (returns &mut [[f32;3]] of the Vec: length cannot change) is not extracted')
