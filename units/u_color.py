"""U-color: src/yuv_rgb/color.rs under exact-real semantics (f32 -> Fx), on top of the verified matrix.rs.

Every fn item of color.rs except the two whole-image entry points (yuv_to_rgb / rgb_to_yuv, which are
Yuv/plane code and live in U-planes) is extracted by name and verified with a contract.
Mechanical rewrites (all recorded in `dropped`):
  R-f32      token `f32` -> `Fx`; decimal literals -> exact rationals `Fx::lit(n, 10^k)`
  R-resmap   `E.map(|p| body)` on a Result -> `match E { Ok(p) => Ok(body), Err(e) => Err(e) }`
  R-arrpat   array patterns (`[x, y]` parameter / closure parameter) -> index reads
  R-const    `const NAME: T = e;` inside a fn body -> `let NAME: T = e;` (Fx arithmetic is not const)
  R-mapvec   `for pix in &mut v { *pix = f(*pix); }` -> index loop with invariant (same per-element expression)
"""
import re, os
from rsx import RustSrc, AnchorLost
from vgen import C, Gen, apply_contract, strip_attrs_and_docs
import preamble, u_matrix
from polyproof import Atom, identity_proof

REL = 'src/yuv_rgb/color.rs'

def av_enums(repo):
    """Copy the three metadata enums mechanically from the av-data source the repo's Cargo.lock pins."""
    lock = open(os.path.join(repo, 'Cargo.lock')).read() if os.path.exists(os.path.join(repo, 'Cargo.lock')) else open('/repo/Cargo.lock').read()
    m = re.search(r'name = "av-data"\nversion = "([^"]+)"', lock)
    if not m: raise AnchorLost('av-data not in Cargo.lock')
    import glob
    cands = glob.glob(os.path.expanduser(f'~/.cargo/registry/src/*/av-data-{m.group(1)}/src/pixel.rs'))
    if not cands: raise AnchorLost('av-data source not in the cargo registry')
    src = RustSrc(cands[0])
    out = ['pub mod av_data { pub mod pixel {\nuse vstd::prelude::*;\n']
    for en in ('MatrixCoefficients', 'ColorPrimaries', 'TransferCharacteristic'):
        txt = strip_attrs_and_docs(src.get(src.find('enum', en)))
        txt = re.sub(r'\s*=\s*\d+\s*,', ',', txt)   # explicit discriminants dropped (no enum `as` casts in the verified code)
        out.append('#[derive(Clone, Copy, PartialEq, Eq, Debug)]\n' + txt + '\n')
        out.append(f'''impl vstd::std_specs::cmp::PartialEqSpecImpl for {en} {{
    open spec fn obeys_eq_spec() -> bool {{ true }}
    open spec fn eq_spec(&self, other: &{en}) -> bool {{ *self == *other }}
}}
''')
    out.append('}}\n')
    return ''.join(out), m.group(1)

def errors_enum(repo):
    src = RustSrc(os.path.join(repo, 'src/errors.rs'))
    return '#[derive(Clone, Copy, PartialEq, Eq)]\n' + strip_attrs_and_docs(src.get(src.find('enum', 'ConversionError')))

def yuvconfig_struct(repo):
    src = RustSrc(os.path.join(repo, 'src/yuv.rs'))
    return '#[derive(Clone, Copy)]\n' + strip_attrs_and_docs(src.get(src.find('struct', 'YuvConfig')))

SPEC = r'''
// =====================================================================================================
// oracle side, written from the property statements (H.273 tables / formulas), not from the code
// =====================================================================================================
pub open spec fn std_krkb(m: MatrixCoefficients) -> bool {
    m == MatrixCoefficients::BT709 || m == MatrixCoefficients::BT470M || m == MatrixCoefficients::BT470BG
    || m == MatrixCoefficients::ST170M || m == MatrixCoefficients::ST240M || m == MatrixCoefficients::BT2020NonConstantLuminance
}
// the 7 standard non-constant-luminance matrices of C01/C02/C08
pub open spec fn std7(m: MatrixCoefficients) -> bool { std_krkb(m) || m == MatrixCoefficients::YCgCo }
// ITU-T H.273 Table 4
pub open spec fn h273_kr(m: MatrixCoefficients) -> real {
    if m == MatrixCoefficients::BT709 { 0.2126real } else if m == MatrixCoefficients::BT470M { 0.30real }
    else if m == MatrixCoefficients::BT470BG || m == MatrixCoefficients::ST170M { 0.299real }
    else if m == MatrixCoefficients::ST240M { 0.212real } else { 0.2627real }
}
pub open spec fn h273_kb(m: MatrixCoefficients) -> real {
    if m == MatrixCoefficients::BT709 { 0.0722real } else if m == MatrixCoefficients::BT470M { 0.11real }
    else if m == MatrixCoefficients::BT470BG || m == MatrixCoefficients::ST170M { 0.114real }
    else if m == MatrixCoefficients::ST240M { 0.087real } else { 0.0593real }
}
// H.273 encode equations: Y' = Kr R + Kg G + Kb B, Cb = (B - Y')/(2(1-Kb)), Cr = (R - Y')/(2(1-Kr))
pub open spec fn h273_fwd(kr: real, kb: real) -> M3 {
    let kg = 1real - kr - kb;
    m3(v3(kr, kg, kb),
       v3((0real - kr) / (2real * (1real - kb)), (0real - kg) / (2real * (1real - kb)), (1real - kb) / (2real * (1real - kb))),
       v3((1real - kr) / (2real * (1real - kr)), (0real - kg) / (2real * (1real - kr)), (0real - kb) / (2real * (1real - kr))))
}
// YCgCo (H.273 eq. for MatrixCoefficients 8):  Y = R/4 + G/2 + B/4, Cg = -R/4 + G/2 - B/4, Co = R/2 - B/2
pub open spec fn ycgco_fwd() -> M3 {
    m3(v3(0.25real, 0.5real, 0.25real), v3(-0.25real, 0.5real, -0.25real), v3(0.5real, 0real, -0.5real))
}
pub open spec fn fwd_of(m: MatrixCoefficients) -> M3 {
    if m == MatrixCoefficients::YCgCo { ycgco_fwd() } else { h273_fwd(h273_kr(m), h273_kb(m)) }
}
// C14: which matrix / primaries values are supported, from the property text
pub open spec fn primaries_xy_ok(p: ColorPrimaries) -> bool {
    p == ColorPrimaries::BT709 || p == ColorPrimaries::BT470M || p == ColorPrimaries::BT470BG || p == ColorPrimaries::ST170M
    || p == ColorPrimaries::ST240M || p == ColorPrimaries::Film || p == ColorPrimaries::BT2020 || p == ColorPrimaries::P3DCI
    || p == ColorPrimaries::P3Display || p == ColorPrimaries::Tech3213
}
pub open spec fn primaries_ok(p: ColorPrimaries) -> bool { primaries_xy_ok(p) || p == ColorPrimaries::ST428 }
pub open spec fn primaries_err(p: ColorPrimaries) -> ConversionError {
    if p == ColorPrimaries::Unspecified { ConversionError::UnspecifiedColorPrimaries } else { ConversionError::UnsupportedColorPrimaries }
}
// matrices whose coefficients are derived from the primaries (constant-luminance / identity families)
pub open spec fn from_primaries_family(m: MatrixCoefficients) -> bool {
    m == MatrixCoefficients::Identity || m == MatrixCoefficients::BT2020ConstantLuminance
    || m == MatrixCoefficients::ChromaticityDerivedConstantLuminance || m == MatrixCoefficients::ST2085 || m == MatrixCoefficients::ICtCp
}
pub open spec fn matrix_ok(m: MatrixCoefficients, p: ColorPrimaries) -> bool {
    std7(m) || (from_primaries_family(m) && primaries_xy_ok(p))
}
pub open spec fn matrix_err(m: MatrixCoefficients, p: ColorPrimaries) -> ConversionError {
    if m == MatrixCoefficients::Unspecified { ConversionError::UnspecifiedMatrixCoefficients }
    else if from_primaries_family(m) { primaries_err(p) }
    else { ConversionError::UnsupportedMatrixCoefficients }
}
pub open spec fn res_m3(r: Result<Matrix, ConversionError>) -> M3 { mv(r->Ok_0) }
'''

LEMMAS = r'''
// ---- real-arithmetic lemmas used by the contracts (each tiny) ----
pub proof fn lemma_mul_recip(a: real, d: real)
    by(nonlinear_arith)
    requires d != 0real
    ensures a * (1real / d) == a / d
{}
pub proof fn lemma_recip_nonzero(d: real)
    by(nonlinear_arith)
    requires d != 0real
    ensures 1real / d != 0real
{}
pub proof fn lemma_prod3_nonzero(a: real, b: real, c: real)
    by(nonlinear_arith)
    requires a != 0real, b != 0real, c != 0real
    ensures (a * (b * c)) != 0real
{}
// the forward matrix as the code builds it (scales as separate factors)
pub open spec fn fwd_scaled(kr: real, kg: real, kb: real, us: real, vs: real) -> M3 {
    m3(v3(kr, kg, kb),
       v3((0real - kr) * us, (0real - kg) * us, (1real - kb) * us),
       v3((1real - kr) * vs, (0real - kg) * vs, (0real - kb) * vs))
}
pub proof fn lemma_fwd_scaled_is_h273(kr: real, kb: real)
    requires kr != 1real, kb != 1real
    ensures fwd_scaled(kr, 1real - kr - kb, kb, 1real / (2real * (0real - kb) + 2real), 1real / (2real * (0real - kr) + 2real)) == h273_fwd(kr, kb)
{
    let kg = 1real - kr - kb;
    let du = 2real * (1real - kb); let dv = 2real * (1real - kr);
    assert(2real * (0real - kb) + 2real == du);
    assert(2real * (0real - kr) + 2real == dv);
    lemma_mul_recip(0real - kr, du); lemma_mul_recip(0real - kg, du); lemma_mul_recip(1real - kb, du);
    lemma_mul_recip(1real - kr, dv); lemma_mul_recip(0real - kg, dv); lemma_mul_recip(0real - kb, dv);
    lemma_m3_ext(fwd_scaled(kr, kg, kb, 1real / du, 1real / dv), h273_fwd(kr, kb));
}
'''

def det_lemma():
    """det(fwd_scaled) == kg*us*vs*(kr+kg+kb) ... as a generated polynomial identity."""
    kr, kg, kb, us, vs = [Atom(n) for n in ('kr', 'kg', 'kb', 'us', 'vs')]
    r1 = (kr, kg, kb)
    r2 = ((0 - kr) * us, (0 - kg) * us, (1 - kb) * us)
    r3 = ((1 - kr) * vs, (0 - kg) * vs, (0 - kb) * vs)
    a, b, c = r1; d, e, f = r2; g, h, i = r3
    det = a * (e * i - h * f) - b * (d * i - g * f) + c * (d * h - g * e)
    txt, tl, tr = identity_proof('poly_det_fwd', 'kr: real, kg: real, kb: real, us: real, vs: real', det, kg * (us * vs))
    wrap = f'''
pub proof fn lemma_det_fwd_scaled(kr: real, kg: real, kb: real, us: real, vs: real)
    ensures m3_det(fwd_scaled(kr, kg, kb, us, vs)) == kg * (us * vs)
{{
    poly_det_fwd(kr, kg, kb, us, vs);
    assert(m3_det(fwd_scaled(kr, kg, kb, us, vs)) == {tl});
}}
pub proof fn lemma_h273_fwd_invertible(kr: real, kb: real)
    requires kr != 1real, kb != 1real, 1real - kr - kb != 0real
    ensures m3_det(h273_fwd(kr, kb)) != 0real
{{
    let kg = 1real - kr - kb;
    let us = 1real / (2real * (0real - kb) + 2real); let vs = 1real / (2real * (0real - kr) + 2real);
    lemma_fwd_scaled_is_h273(kr, kb);
    lemma_det_fwd_scaled(kr, kg, kb, us, vs);
    lemma_recip_nonzero(2real * (0real - kb) + 2real); lemma_recip_nonzero(2real * (0real - kr) + 2real);
    lemma_prod3_nonzero(kg, us, vs);
}}
// C16 (exact): luma row sums to 1, both chroma rows sum to 0, for every Kr, Kb
pub proof fn lemma_fwd_rows(kr: real, kb: real)
    requires kr != 1real, kb != 1real
    ensures ({{ let f = h273_fwd(kr, kb);
               f.a.x + f.a.y + f.a.z == 1real && f.b.x + f.b.y + f.b.z == 0real && f.c.x + f.c.y + f.c.z == 0real }})
{{
    let kg = 1real - kr - kb;
    let us = 1real / (2real * (0real - kb) + 2real); let vs = 1real / (2real * (0real - kr) + 2real);
    lemma_fwd_scaled_is_h273(kr, kb);
    pp_distr_l((0real - kr) + (0real - kg), 1real - kb, us); pp_distr_l(0real - kr, 0real - kg, us);
    pp_distr_l((1real - kr) + (0real - kg), 0real - kb, vs); pp_distr_l(1real - kr, 0real - kg, vs);
    pp_zero(us); pp_zero(vs);
    assert(((0real - kr) + (0real - kg)) + (1real - kb) == 0real);
    assert(((1real - kr) + (0real - kg)) + (0real - kb) == 0real);
}}
'''
    return txt + wrap

# ------------------------------------------------------------------------------------------ contracts
MC = 'MatrixCoefficients'
def contracts():
    t = {}
    t['get_yuv_constants'] = C(strip_const=True, ensures=[
        # H.273 Table 4, for the six Kr/Kb standards
        f'std_krkb(matrix) ==> r is Ok && r->Ok_0.0.val() == h273_kr(matrix) && r->Ok_0.1.val() == h273_kb(matrix)',
        f'matrix == {MC}::BT2020ConstantLuminance ==> r is Ok && r->Ok_0.0.val() == 0.2627real && r->Ok_0.1.val() == 0.0593real',
        f'matrix == {MC}::Identity ==> r is Ok && r->Ok_0.0.val() == 0real && r->Ok_0.1.val() == 0real',
        f'matrix == {MC}::Unspecified ==> r == Err::<(Fx, Fx), ConversionError>(ConversionError::UnspecifiedMatrixCoefficients)',
        f'(matrix == {MC}::Reserved || matrix == {MC}::YCgCo || matrix == {MC}::ST2085 || matrix == {MC}::ChromaticityDerivedNonConstantLuminance '
        f'|| matrix == {MC}::ChromaticityDerivedConstantLuminance || matrix == {MC}::ICtCp) ==> r == Err::<(Fx, Fx), ConversionError>(ConversionError::UnsupportedMatrixCoefficients)',
    ])
    t['ncl_rgb_to_yuv_matrix_from_kr_kb'] = C(ensures=[
        'kr.val() != 1real && kb.val() != 1real ==> mv(r) == h273_fwd(kr.val(), kb.val())',
    ], head='    proof { if kr.val() != 1real && kb.val() != 1real { lemma_fwd_scaled_is_h273(kr.val(), kb.val()); } }',
       inserts=[('Matrix::new(', 'before',
                 '    proof { if kr.val() != 1real && kb.val() != 1real { assert(uscale.val() == 1real / (2real * (0real - kb.val()) + 2real)); assert(vscale.val() == 1real / (2real * (0real - kr.val()) + 2real)); } }')])
    t['ncl_rgb_to_yuv_matrix'] = C(ensures=[
        f'std7(matrix) ==> r is Ok && res_m3(r) == fwd_of(matrix)',
        f'matrix == {MC}::ST2085 || matrix == {MC}::Identity || matrix == {MC}::BT2020ConstantLuminance ==> r is Ok',
        f'matrix == {MC}::Unspecified ==> r == Err::<Matrix, ConversionError>(ConversionError::UnspecifiedMatrixCoefficients)',
        f'(matrix == {MC}::Reserved || matrix == {MC}::ChromaticityDerivedNonConstantLuminance '
        f'|| matrix == {MC}::ChromaticityDerivedConstantLuminance || matrix == {MC}::ICtCp) ==> r == Err::<Matrix, ConversionError>(ConversionError::UnsupportedMatrixCoefficients)',
    ])
    t['get_primaries_xy'] = C(strip_const=True, ensures=[
        'primaries_xy_ok(primaries) <==> r is Ok',
        '!primaries_xy_ok(primaries) ==> r == Err::<[[Fx; 2]; 3], ConversionError>(primaries_err(primaries))',
    ])
    t['xy_to_xyz'] = C(ensures=['xy[1].val() != 0real ==> r[0].val() == xy[0].val() / xy[1].val() && r[1].val() == 1real '
                                '&& r[2].val() == (1real - xy[0].val() - xy[1].val()) / xy[1].val()'],
                       rewrites=[], )
    t['get_white_point'] = C(ensures=['true'])
    t['get_yuv_constants_from_primaries'] = C(ensures=[
        'primaries_xy_ok(primaries) <==> r is Ok',
        '!primaries_xy_ok(primaries) ==> r == Err::<(Fx, Fx), ConversionError>(primaries_err(primaries))'])
    t['ncl_rgb_to_yuv_matrix_from_primaries'] = C(ensures=[
        'primaries_xy_ok(primaries) <==> r is Ok',
        '!primaries_xy_ok(primaries) ==> r == Err::<Matrix, ConversionError>(primaries_err(primaries))',
        f'primaries == ColorPrimaries::BT709 ==> res_m3(r) == fwd_of({MC}::BT709)',
        f'primaries == ColorPrimaries::BT2020 ==> res_m3(r) == fwd_of({MC}::BT2020NonConstantLuminance)'])
    t['get_rgb_to_yuv_matrix'] = C(ensures=[
        # C14: Ok/Err as a function of the metadata, named variant
        'matrix_ok(config.matrix_coefficients, config.color_primaries) <==> r is Ok',
        '!matrix_ok(config.matrix_coefficients, config.color_primaries) ==> r == Err::<Matrix, ConversionError>(matrix_err(config.matrix_coefficients, config.color_primaries))',
        # C02: the encode matrix is the H.273 one, for the 7 standard matrices (independent of transfer/primaries)
        'std7(config.matrix_coefficients) ==> res_m3(r) == fwd_of(config.matrix_coefficients)'])
    t['get_yuv_to_rgb_matrix'] = C(ensures=[
        'matrix_ok(config.matrix_coefficients, config.color_primaries) <==> r is Ok',
        '!matrix_ok(config.matrix_coefficients, config.color_primaries) ==> r == Err::<Matrix, ConversionError>(matrix_err(config.matrix_coefficients, config.color_primaries))',
        # C01/C08: the decode matrix is THE inverse of the H.273 encode matrix (exact reals)
        'std7(config.matrix_coefficients) ==> res_m3(r) == m3_inv(fwd_of(config.matrix_coefficients)) '
        '&& m3_mul(res_m3(r), fwd_of(config.matrix_coefficients)) == m3_id() && m3_mul(fwd_of(config.matrix_coefficients), res_m3(r)) == m3_id()'],
        rewrites=[(r'get_rgb_to_yuv_matrix\(config\)\.map\(\|m\| m\.invert\(\)\)',
                   'match get_rgb_to_yuv_matrix(config) { Ok(m) => { proof { lemma_std7_invertible(config.matrix_coefficients); if std7(config.matrix_coefficients) { lemma_inverse(mv(m)); } } Ok(m.invert()) }, Err(e) => Err(e) }',
                   'R-resmap: get_yuv_to_rgb_matrix `.map(|m| m.invert())` -> match')])
    return t

TOP = r'''
// every one of the 7 standard encode matrices is invertible (so "the inverse" is meaningful)
pub proof fn lemma_std7_invertible(m: MatrixCoefficients)
    ensures std7(m) ==> m3_det(fwd_of(m)) != 0real
{
    if std_krkb(m) { lemma_h273_fwd_invertible(h273_kr(m), h273_kb(m)); }
    if m == MatrixCoefficients::YCgCo { assert(m3_det(ycgco_fwd()) == -0.25real); }
}
// C08 (exact): encoding the decoded pixel returns the pixel, for every real vector v:  fwd * (inv * v) == v
pub proof fn lemma_roundtrip_exact(m: MatrixCoefficients, v: V3)
    requires std7(m)
    ensures m3_mulvec(fwd_of(m), m3_mulvec(m3_inv(fwd_of(m)), v)) == v
{
    lemma_std7_invertible(m); lemma_inverse(fwd_of(m));
    lemma_mulvec_assoc(fwd_of(m), m3_inv(fwd_of(m)), v);
    lemma_id_mulvec(v);
}
// C16: rows of every standard encode matrix: luma sums to 1, chroma rows to 0  => grey has zero chroma
pub proof fn lemma_std7_rows(m: MatrixCoefficients)
    requires std7(m)
    ensures ({ let f = fwd_of(m);
               f.a.x + f.a.y + f.a.z == 1real && f.b.x + f.b.y + f.b.z == 0real && f.c.x + f.c.y + f.c.z == 0real })
{
    if std_krkb(m) { lemma_fwd_rows(h273_kr(m), h273_kb(m)); }
}
'''

def extract_fn(src, name, g, c):
    sp = src.find('fn', name, keep_attrs=True)
    txt = src.get(sp)
    g.under_contract.append({'fn': name, 'src': f'{REL}:{src.line_of(sp[0])}', 'requires': c.requires, 'ensures': c.ensures})
    return txt

def retarget(txt):
    """R-f32 + literal rewrite."""
    txt = re.sub(r'\bf32\b', 'Fx', txt)
    return preamble.lit_rewrite(txt)

def build(repo, with_primaries=False):
    g = Gen('u_color')
    g.add(preamble.read('exact.rs'))
    g.add(preamble.fx('Fx', 'f32')); g.add(preamble.fx('Fx64', 'f64'))
    g.add('pub mod yuvxyb_math {\nuse super::*;\n' + u_matrix.matrix_module(repo, g) + '\n}\nuse yuvxyb_math::*;\n')
    enums, ver = av_enums(repo)
    g.add(enums); g.add('use av_data::pixel::{ColorPrimaries, MatrixCoefficients, TransferCharacteristic};\n')
    g.dropped.append(f'av-data {ver}: the enums MatrixCoefficients/ColorPrimaries/TransferCharacteristic are copied mechanically from the registry source (derive list reduced to Clone, Copy, PartialEq, Eq)')
    g.add(errors_enum(repo)); g.add(yuvconfig_struct(repo))
    src = RustSrc(os.path.join(repo, REL))
    # type aliases verbatim (f32 -> Fx)
    for al in ('ColVector', 'Matrix', 'RowVector'):
        g.add(retarget(src.get(src.find('type', al))))
    g.add(SPEC); g.add(LEMMAS); g.add(det_lemma()); g.add(TOP)
    table = contracts()
    # ---- mechanical rewrites specific to items
    table['xy_to_xyz'].rewrites = []
    for name, c in table.items():
        txt = extract_fn(src, name, g, c)
        if name == 'xy_to_xyz':
            txt, n = re.subn(r'fn xy_to_xyz\(\[x, y\]: \[f32; 2\]\)', 'fn xy_to_xyz(xy: [f32; 2])', txt)
            if n != 1: raise AnchorLost('xy_to_xyz signature changed')
            txt = txt.replace('{', '{\n    let x = xy[0]; let y = xy[1];', 1)
            g.dropped.append('R-arrpat: xy_to_xyz parameter pattern `[x, y]` -> `xy` + two index reads')
        if name == 'get_white_point':
            txt, n = re.subn(r'(?m)^(\s*)const (ILLUMINANT_\w+): ', r'\1let \2: ', txt)
            if n != 4: raise AnchorLost('get_white_point constants changed')
            g.dropped.append('R-const: 4 `const ILLUMINANT_*` inside get_white_point -> `let`')
        txt = retarget(txt)
        g.add(apply_contract(txt, c, g.dropped))
    g.dropped += ['R-f32: color.rs token `f32` -> `Fx`, decimal literals -> exact rationals',
                  'color.rs: yuv_to_rgb / rgb_to_yuv / transform_primaries and the gamut helpers are not in this unit (see U-planes / U-primaries)']
    g.assumed.append('Fx::eq (float `==`) assumed to be equality of real values (external_body)')
    return g
