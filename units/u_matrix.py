"""U-matrix: yuvxyb-math/src/matrix.rs, whole file, generic code verified for every T: Exact."""
import re, os, sys
from rsx import RustSrc, AnchorLost
from vgen import C, Gen, apply_contract, strip_attrs_and_docs

REL = 'yuvxyb-math/src/matrix.rs'
GEN_IMPL = r'impl<T> {ty}<T> where'
COPY_IMPL = r'impl<T: Copy> {ty}<T>$'

AX = '        proof { T::ax(); }'

def contracts():
    rv, cv, mv = 'rv', 'cv', 'mv'
    t = {}
    # --- RowVector<T: Copy>
    k = COPY_IMPL.format(ty='RowVector')
    t[(k, 'new')] = C(ensures=['r == RowVector(x, y, z)'])
    t[(k, 'x')] = C(ensures=['r == self.0'])
    t[(k, 'y')] = C(ensures=['r == self.1'])
    t[(k, 'z')] = C(ensures=['r == self.2'])
    t[(k, 'values')] = C(ensures=['r[0] == self.0', 'r[1] == self.1', 'r[2] == self.2'])
    # --- RowVector<T: Exact>
    k = GEN_IMPL.format(ty='RowVector')
    t[(k, 'cross')] = C(ensures=['rv(r) == v3_cross(rv(*self), rv(*other))'], head=AX)
    t[(k, 'dot')] = C(ensures=['r.val() == v3_dot(rv(*self), rv(*other))'], head=AX)
    t[(k, 'scalar_div')] = C(ensures=['x.val() != 0real ==> rv(r) == v3_div(rv(*self), x.val())'], head=AX)
    t[(k, 'component_mul')] = C(ensures=[
        'rv(r) == v3(self.0.val() * other.0.val(), self.1.val() * other.1.val(), self.2.val() * other.2.val())'], head=AX)
    # --- ColVector<T: Copy>
    k = COPY_IMPL.format(ty='ColVector')
    t[(k, 'new')] = C(ensures=['r == ColVector(r_, g, b)'],
                      )
    t[(k, 'r')] = C(ensures=['r == self.0'])
    t[(k, 'g')] = C(ensures=['r == self.1'])
    t[(k, 'b')] = C(ensures=['r == self.2'])
    t[(k, 'transpose')] = C(ensures=['r == RowVector(self.0, self.1, self.2)'])
    t[(k, 'values')] = C(ensures=['r[0] == self.0', 'r[1] == self.1', 'r[2] == self.2'])
    # --- Matrix<T: Copy>
    k = COPY_IMPL.format(ty='Matrix')
    t[(k, 'new')] = C(ensures=['r == Matrix(r1, r2, r3)'])
    t[(k, 'r1')] = C(ensures=['*r == self.0'])
    t[(k, 'r2')] = C(ensures=['*r == self.1'])
    t[(k, 'r3')] = C(ensures=['*r == self.2'])
    t[(k, 'transpose')] = C(ensures=['r == mt(self)'])
    # --- identity
    t[(r'impl Matrix<Fx>$', 'identity')] = C(ensures=['mv(r) == m3_id()'], head='        proof { Fx::ax(); }')
    t[(r'impl Matrix<Fx64>$', 'identity')] = C(ensures=['mv(r) == m3_id()'], head='        proof { Fx64::ax(); }')
    # --- Matrix<T: Exact>
    k = GEN_IMPL.format(ty='Matrix')
    t[(k, 'scalar_div')] = C(ensures=['x.val() != 0real ==> mv(r) == m3_div(mv(*self), x.val())'], head=AX)
    # "Will panic if the matrix is not invertible" (doc) is not true of floats: division is total; for
    # det == 0 nothing is promised.
    t[(k, 'invert')] = C(ensures=['m3_det(mv(*self)) != 0real ==> mv(r) == m3_inv(mv(*self))'], head=AX)
    t[(k, 'mul_vec')] = C(ensures=['cvv(r) == m3_mulvec(mv(*self), cvv(*rhs))'], head=AX)
    t[(k, 'mul_mat')] = C(ensures=['mv(r) == m3_mul(mv(*self), mv(rhs))'], head=AX)
    t[(k, 'mul_arr')] = C(ensures=[
        'v3(r[0].val(), r[1].val(), r[2].val()) == m3_mulvec(mv(*self), v3(rhs[0].val(), rhs[1].val(), rhs[2].val()))'], head=AX)
    t[(k, 'values')] = C(ensures=[
        'r[0][0] == self.0.0', 'r[0][1] == self.0.1', 'r[0][2] == self.0.2',
        'r[1][0] == self.1.0', 'r[1][1] == self.1.1', 'r[1][2] == self.1.2',
        'r[2][0] == self.2.0', 'r[2][1] == self.2.1', 'r[2][2] == self.2.2'])
    return t

VIEWS = '''
// spec side of the derived PartialEq (structural, component-wise)
impl<T: PartialEq + vstd::std_specs::cmp::PartialEqSpec> vstd::std_specs::cmp::PartialEqSpecImpl for RowVector<T> {
    open spec fn obeys_eq_spec() -> bool { T::obeys_eq_spec() }
    open spec fn eq_spec(&self, other: &RowVector<T>) -> bool { self.0.eq_spec(&other.0) && self.1.eq_spec(&other.1) && self.2.eq_spec(&other.2) }
}
impl<T: PartialEq + vstd::std_specs::cmp::PartialEqSpec> vstd::std_specs::cmp::PartialEqSpecImpl for ColVector<T> {
    open spec fn obeys_eq_spec() -> bool { T::obeys_eq_spec() }
    open spec fn eq_spec(&self, other: &ColVector<T>) -> bool { self.0.eq_spec(&other.0) && self.1.eq_spec(&other.1) && self.2.eq_spec(&other.2) }
}
impl<T: PartialEq + vstd::std_specs::cmp::PartialEqSpec> vstd::std_specs::cmp::PartialEqSpecImpl for Matrix<T> {
    open spec fn obeys_eq_spec() -> bool { T::obeys_eq_spec() }
    open spec fn eq_spec(&self, other: &Matrix<T>) -> bool {
        vstd::std_specs::cmp::PartialEqSpec::eq_spec(&self.0, &other.0) && vstd::std_specs::cmp::PartialEqSpec::eq_spec(&self.1, &other.1)
            && vstd::std_specs::cmp::PartialEqSpec::eq_spec(&self.2, &other.2)
    }
}

// From<[T;3]>: Verus needs the spec side of the std trait (vstd::std_specs::convert::FromSpec)
impl<T: Copy> vstd::std_specs::convert::FromSpecImpl<[T; 3]> for RowVector<T> {
    open spec fn obeys_from_spec() -> bool { true }
    open spec fn from_spec(v: [T; 3]) -> Self { RowVector(v[0], v[1], v[2]) }
}
impl<T: Copy> vstd::std_specs::convert::FromSpecImpl<[T; 3]> for ColVector<T> {
    open spec fn obeys_from_spec() -> bool { true }
    open spec fn from_spec(v: [T; 3]) -> Self { ColVector(v[0], v[1], v[2]) }
}

// ---- views of the repo's generic types into the mathematical ones ----
pub open spec fn rv<T: Exact>(v: RowVector<T>) -> V3 { v3(v.0.val(), v.1.val(), v.2.val()) }
pub open spec fn cvv<T: Exact>(v: ColVector<T>) -> V3 { v3(v.0.val(), v.1.val(), v.2.val()) }
pub open spec fn mv<T: Exact>(m: Matrix<T>) -> M3 { m3(rv(m.0), rv(m.1), rv(m.2)) }
pub open spec fn mt<T>(m: Matrix<T>) -> Matrix<T> {
    Matrix(RowVector(m.0.0, m.1.0, m.2.0), RowVector(m.0.1, m.1.1, m.2.1), RowVector(m.0.2, m.1.2, m.2.2))
}
'''

def transform_matrix_source(repo, g, extra_bound='Exact'):
    """Returns the text of matrix.rs with contracts injected in place (everything else verbatim)."""
    src = RustSrc(os.path.join(repo, REL))
    table = contracts()
    # collect replacement spans
    repl = []
    impls = {}
    for (hdr, fn), c in table.items():
        if hdr not in impls:
            h2 = hdr.replace('Matrix<Fx>$', 'Matrix<f32>$').replace('Matrix<Fx64>$', 'Matrix<f64>$')
            impls[hdr] = src.find_impl(h2)
        im = impls[hdr]
        sp = src.find('fn', fn, within=(im[2], im[3]), keep_attrs=True)
        txt = src.get(sp)
        if fn == 'new' and 'ColVector' in hdr:
            # the parameter is called `r`, which clashes with the named return; name the return `ret`
            c = C(ensures=['ret == ColVector(r, g, b)'], rname='ret')
        ann = apply_contract(txt, c, g.dropped)
        repl.append((sp[0], sp[1], ann))
        g.under_contract.append({'fn': f'{hdr} :: {fn}', 'src': f'{REL}:{src.line_of(sp[0])}',
                                 'requires': c.requires, 'ensures': c.ensures})
    repl.sort()
    out, pos = [], 0
    for s, e, ann in repl:
        out.append(src.text[pos:s]); out.append(ann); pos = e
    out.append(src.text[pos:])
    text = ''.join(out)
    # ---- global mechanical rewrites (each recorded) ----
    text = re.sub(r'(?m)^#!\[.*\]\s*$', '', text)
    text = re.sub(r'(?m)^use .*;\s*$', '', text)
    text = re.sub(r'(?m)^// .*$', '', text)
    text = strip_attrs_and_docs(text)
    g.dropped += ['matrix.rs: inner attributes, `use` lines, derive/must_use attributes and doc comments removed',
                  'matrix.rs: tuple-struct fields made `pub` (visibility only)']
    n_total = 0
    for ty in ('RowVector', 'ColVector'):
        text, n = re.subn(r'pub struct %s<T>\(T, T, T\);' % ty, 'pub struct %s<T>(pub T, pub T, pub T);' % ty, text)
        n_total += n
    text, n = re.subn(r'pub struct Matrix<T>\(RowVector<T>, RowVector<T>, RowVector<T>\);',
                      'pub struct Matrix<T>(pub RowVector<T>, pub RowVector<T>, pub RowVector<T>);', text)
    n_total += n
    if n_total != 3:
        raise AnchorLost('matrix.rs: struct declarations changed shape')
    # keep the derives Verus understands (Debug / must_use dropped)
    text = re.sub(r'(?m)^pub struct (RowVector|ColVector|Matrix)<T>', r'#[derive(Clone, PartialEq)]\npub struct \1<T>', text)
    # generic bound: append `+ Exact`
    text, n = re.subn(r'Neg<Output = T>,', 'Neg<Output = T> + %s,' % extra_bound, text)
    if n != 2:
        raise AnchorLost('matrix.rs: where-clauses changed shape')
    g.dropped.append('matrix.rs: `+ Exact` appended to the two generic where-clauses (verification for every exact field T)')
    # slice patterns in the two From<[T;3]> impls
    text, n = re.subn(r'let \[(\w+), (\w+), (\w+)\] = value;',
                      r'let \1 = value[0]; let \2 = value[1]; let \3 = value[2];', text)
    if n != 2:
        raise AnchorLost('matrix.rs: From<[T;3]> impls changed shape')
    g.dropped.append('matrix.rs: array pattern `let [a,b,c] = value` rewritten to three index reads (Verus has no slice patterns)')
    # the two non-generic identity() impls: f32 -> Fx, f64 -> Fx64, decimal literals -> exact rationals
    import preamble
    def fx_impl(m):
        body = m.group(0)
        which = 'Fx' if 'Matrix<f32>' in body else 'Fx64'
        body = body.replace('Matrix<f32>', 'Matrix<Fx>').replace('Matrix<f64>', 'Matrix<Fx64>')
        return preamble.lit_rewrite(body, default=which)
    text, n = re.subn(r'impl Matrix<f(32|64)> \{.*?\n\}\n', fx_impl, text, flags=re.S)
    if n != 2:
        raise AnchorLost('matrix.rs: identity() impls changed shape')
    g.dropped.append('matrix.rs: `impl Matrix<f32>`/`impl Matrix<f64>` (identity) re-typed to Fx/Fx64, literals read as exact rationals')
    return text

def LEMMAS():
    return open(os.path.join(os.path.dirname(os.path.abspath(__file__)), '..', 'contracts', 'verus', 'm3_lemmas.rs')).read()

def matrix_module(repo, g):
    import preamble, m3lemmas
    return '\n'.join([preamble.read('m3.rs'), VIEWS, transform_matrix_source(repo, g), LEMMAS(), m3lemmas.inverse_lemmas(), m3lemmas.mulvec_assoc_lemma()])

def build(repo):
    import preamble
    g = Gen('u_matrix')
    g.add(preamble.read('exact.rs'))
    g.add(preamble.fx('Fx', 'f32')); g.add(preamble.fx('Fx64', 'f64'))
    g.add(preamble.read('m3.rs'))
    g.add(VIEWS)
    g.add(transform_matrix_source(repo, g))
    g.add(LEMMAS())
    import m3lemmas
    g.add(m3lemmas.inverse_lemmas())
    return g
