"""U-dispatch (E1): metadata dispatch and the conversion graph.
  transfer.rs   to_linear / to_gamma match tables (the 18 image_* functions are stubs keyed by the scalar curve they apply)
  color.rs      yuv_to_rgb, rgb_to_yuv, transform_primaries, gamut_* Ok/Err logic (matrix values opaque here; exact values in U-color)
  rgb.rs, linear_rgb.rs, xyb.rs, yuv.rs, hsl.rs   every TryFrom / From impl
Stage results are uninterpreted spec functions: the contracts state WHICH stage function is applied with WHICH metadata,
so support/error contracts (C14), label = content (C15), alias/identity clauses (C03) and width/height pass-through (C11)
are decided for all enum values at once.

Mechanical rewrites (recorded): R-traitimpl, R-resmap, R-arrpat, R-mapvec, R-itermap(cut), R-logwarn, R-pub, R-mutlocal.
"""
import re, os
from rsx import RustSrc, AnchorLost, _mask, split_fn
from vgen import C, Gen, apply_contract, strip_attrs_and_docs
from u_color import av_enums
from u_planes import pubfields, vframe_src
import u_planes, u_color, preamble

def camel(s):
    return ''.join(p.capitalize() for p in s.split('_'))

def curve_pairs(tsrc):
    """(image_name, scalar_name) from the image_transfer_fn! invocations, in source order."""
    return re.findall(r'(?m)^image_transfer_fn!\((\w+),\s*(\w+)\);', tsrc.text)

SPEC_HEAD = r'''
// =====================================================================================================
// uninterpreted stage semantics (E1 only needs: each stage is a deterministic function of its inputs)
// =====================================================================================================
pub type Img = Seq<[f32; 3]>;
pub uninterp spec fn s_img(c: Curve, d: Img) -> Img;                                  // per-component scalar curve over the image
pub uninterp spec fn s_mul_arr(m: Matrix, p: [f32; 3]) -> [f32; 3];                   // Matrix::mul_arr
pub uninterp spec fn s_dec_matrix(c: YuvConfig) -> Matrix;                            // decode matrix of a config
pub uninterp spec fn s_enc_matrix(c: YuvConfig) -> Matrix;
pub uninterp spec fn s_ypbpr<T: Pixel>(y: Yuv<T>) -> Img;                                    // ycbcr_to_ypbpr (U-planes)
pub uninterp spec fn s_ycbcr<T: Pixel>(d: Img, w: usize, h: usize, c: YuvConfig) -> Yuv<T>;  // ypbpr_to_ycbcr (U-planes)
pub uninterp spec fn s_to_xyb(d: Img) -> Img;
pub uninterp spec fn s_from_xyb(d: Img) -> Img;
pub uninterp spec fn s_hsl_px(p: [f32; 3]) -> [f32; 3];
pub uninterp spec fn s_lrgb_px(p: [f32; 3]) -> [f32; 3];
// decoded pixel (x,y): the decode matrix applied to the 1x1 conversion of (Y(x,y), U/V(x>>ss_x, y>>ss_y))
pub open spec fn dec_px<T: Pixel>(i: Yuv<T>, d: Img, y: int, x: int) -> bool {
    exists|px: [f32; 3]| ypbpr_at(i, y, x, px) && d[cell(y, i.data.planes[0].cfg.width as int, x)] == s_mul_arr(s_dec_matrix(i.config), px)
}
pub open spec fn map_img(m: Matrix, d: Img) -> Img { Seq::new(d.len(), |i: int| s_mul_arr(m, d[i])) }
pub open spec fn mapped(m: Matrix, d: Img, r: Img) -> bool { r =~= map_img(m, d) }
pub open spec fn map_px(d: Img, f: spec_fn([f32; 3]) -> [f32; 3]) -> Img { Seq::new(d.len(), |i: int| f(d[i])) }
// ---- C14 / C03: support tables written from the property statements
pub open spec fn transfer_ok(t: TransferCharacteristic) -> bool {
    t == TransferCharacteristic::BT1886 || t == TransferCharacteristic::ST170M || t == TransferCharacteristic::ST240M
    || t == TransferCharacteristic::BT2020Ten || t == TransferCharacteristic::BT2020Twelve
    || t == TransferCharacteristic::BT470M || t == TransferCharacteristic::BT470BG || t == TransferCharacteristic::SRGB
    || t == TransferCharacteristic::XVYCC || t == TransferCharacteristic::Logarithmic100 || t == TransferCharacteristic::Logarithmic316
    || t == TransferCharacteristic::PerceptualQuantizer || t == TransferCharacteristic::HybridLogGamma || t == TransferCharacteristic::Linear
}
pub open spec fn transfer_err(t: TransferCharacteristic) -> ConversionError {
    if t == TransferCharacteristic::Unspecified { ConversionError::UnspecifiedTransferCharacteristic } else { ConversionError::UnsupportedTransferCharacteristic }
}
pub open spec fn bt1886_family(t: TransferCharacteristic) -> bool {
    t == TransferCharacteristic::BT1886 || t == TransferCharacteristic::ST170M || t == TransferCharacteristic::ST240M
    || t == TransferCharacteristic::BT2020Ten || t == TransferCharacteristic::BT2020Twelve
}
// the curve NAMED AFTER each characteristic (C03), per direction; Linear is the identity; aliases share one term
pub open spec fn to_linear_spec(t: TransferCharacteristic, d: Img) -> Img {
    if bt1886_family(t) { s_img(Curve::Rec1886Eotf, d) }
    else if t == TransferCharacteristic::BT470M { s_img(Curve::Rec470mOetf, d) }
    else if t == TransferCharacteristic::BT470BG { s_img(Curve::Rec470bgOetf, d) }
    else if t == TransferCharacteristic::SRGB { s_img(Curve::SrgbEotf, d) }
    else if t == TransferCharacteristic::XVYCC { s_img(Curve::XvyccEotf, d) }
    else if t == TransferCharacteristic::Logarithmic100 { s_img(Curve::Log100InverseOetf, d) }
    else if t == TransferCharacteristic::Logarithmic316 { s_img(Curve::Log316InverseOetf, d) }
    else if t == TransferCharacteristic::PerceptualQuantizer { s_img(Curve::St2084InverseOetf, d) }
    else if t == TransferCharacteristic::HybridLogGamma { s_img(Curve::AribB67InverseOetf, d) }
    else { d }
}
pub open spec fn to_gamma_spec(t: TransferCharacteristic, d: Img) -> Img {
    if bt1886_family(t) { s_img(Curve::Rec1886InverseEotf, d) }
    else if t == TransferCharacteristic::BT470M { s_img(Curve::Rec470mInverseOetf, d) }
    else if t == TransferCharacteristic::BT470BG { s_img(Curve::Rec470bgInverseOetf, d) }
    else if t == TransferCharacteristic::SRGB { s_img(Curve::SrgbInverseEotf, d) }
    else if t == TransferCharacteristic::XVYCC { s_img(Curve::XvyccInverseEotf, d) }
    else if t == TransferCharacteristic::Logarithmic100 { s_img(Curve::Log100Oetf, d) }
    else if t == TransferCharacteristic::Logarithmic316 { s_img(Curve::Log316Oetf, d) }
    else if t == TransferCharacteristic::PerceptualQuantizer { s_img(Curve::St2084Oetf, d) }
    else if t == TransferCharacteristic::HybridLogGamma { s_img(Curve::AribB67Oetf, d) }
    else { d }
}
// primaries conversion in -> out
pub open spec fn prim_conv_ok(i: ColorPrimaries, o: ColorPrimaries) -> bool { i == o || (primaries_ok(i) && primaries_ok(o)) }
pub open spec fn prim_conv_err(i: ColorPrimaries, o: ColorPrimaries) -> ConversionError {
    if !primaries_ok(o) { primaries_err(o) } else { primaries_err(i) }
}
// C06: the ONE matrix applied to every pixel is gamut_xyz_to_rgb(out) * white_point_adaptation(in, out) * gamut_rgb_to_xyz(in)
pub open spec fn s_prim_matrix(i: ColorPrimaries, o: ColorPrimaries) -> Matrix { s_mul_mat(s_mul_mat(s_x2r(o), s_wpa(i, o)), s_r2x(i)) }
pub open spec fn prim_spec(d: Img, i: ColorPrimaries, o: ColorPrimaries) -> Img { if i == o { d } else { map_img(s_prim_matrix(i, o), d) } }
// type invariants (fields are private in the repo; every value comes from a constructor or a conversion)
pub open spec fn rgb_wf(r: Rgb) -> bool { r.data@.len() == r.width * r.height && r.width * r.height <= usize::MAX }
pub open spec fn lrgb_wf(r: LinearRgb) -> bool { r.data@.len() == r.width * r.height && r.width * r.height <= usize::MAX }
pub open spec fn enc_cfg_ok(c: YuvConfig, w: usize, h: usize) -> bool {
    c.subsampling_x < 64 && c.subsampling_y < 64 && 8 <= c.bit_depth <= 16 && (w + 128) * h <= usize::MAX && w + 128 <= usize::MAX && (w > 0 || h == 0)
}
'''


OPAQUE = r"""
// ---- yuvxyb_math 3x3 types: opaque in E1 (exact values: U-matrix / U-color; bit-precise values: Kani) ----
#[verifier::external_body] #[verifier::accept_recursive_types] pub struct Matrix { _p: u8 }
#[verifier::external_body] pub struct ColVector { _p: u8 }
#[verifier::external_body] pub struct RowVector { _p: u8 }
pub uninterp spec fn s_mul_mat(a: Matrix, b: Matrix) -> Matrix;
pub uninterp spec fn s_invert(a: Matrix) -> Matrix;
pub uninterp spec fn s_x2r(p: ColorPrimaries) -> Matrix;     // gamut_xyz_to_rgb_matrix(p) on Ok
pub uninterp spec fn s_r2x(p: ColorPrimaries) -> Matrix;     // gamut_rgb_to_xyz_matrix(p) on Ok
pub uninterp spec fn s_wpa(i: ColorPrimaries, o: ColorPrimaries) -> Matrix;   // white_point_adaptation_matrix
impl Matrix {
    #[verifier::external_body] pub fn identity() -> (r: Matrix) { unimplemented!() }
    #[verifier::external_body] pub fn new(a: RowVector, b: RowVector, c: RowVector) -> (r: Matrix) { unimplemented!() }
    #[verifier::external_body] pub fn invert(&self) -> (r: Matrix) ensures r == s_invert(*self) { unimplemented!() }
    #[verifier::external_body] pub fn transpose(self) -> (r: Matrix) { unimplemented!() }
    #[verifier::external_body] pub fn mul_mat(&self, rhs: Matrix) -> (r: Matrix) ensures r == s_mul_mat(*self, rhs) { unimplemented!() }
    #[verifier::external_body] pub fn mul_vec(&self, rhs: &ColVector) -> (r: ColVector) { unimplemented!() }
    #[verifier::external_body] pub fn mul_arr(&self, rhs: [f32; 3]) -> (r: [f32; 3]) ensures r == s_mul_arr(*self, rhs) { unimplemented!() }
    #[verifier::external_body] pub fn r1(&self) -> (r: &RowVector) { unimplemented!() }
    #[verifier::external_body] pub fn r2(&self) -> (r: &RowVector) { unimplemented!() }
    #[verifier::external_body] pub fn r3(&self) -> (r: &RowVector) { unimplemented!() }
}
impl ColVector { #[verifier::external_body] pub fn transpose(self) -> (r: RowVector) { unimplemented!() } }
impl RowVector { #[verifier::external_body] pub fn component_mul(&self, o: &RowVector) -> (r: RowVector) { unimplemented!() } }
#[verifier::external_body] fn colvector_from(v: [f32; 3]) -> (r: ColVector) { unimplemented!() }
#[verifier::external_body] fn rowvector_from(v: [f32; 3]) -> (r: RowVector) { unimplemented!() }
#[verifier::external_body] fn get_white_point(primaries: ColorPrimaries) -> (r: [f32; 3]) { unimplemented!() }
#[verifier::external_body] fn xy_to_xyz(xy: [f32; 2]) -> (r: [f32; 3]) { unimplemented!() }
#[verifier::external_body] fn white_point_adaptation_matrix(in_primaries: ColorPrimaries, out_primaries: ColorPrimaries) -> (r: Matrix)
    ensures r == s_wpa(in_primaries, out_primaries) { unimplemented!() }
// contracts of the two matrix getters: proved on the real code under exact semantics in U-color (same spec text)
#[verifier::external_body] pub fn get_yuv_to_rgb_matrix(config: YuvConfig) -> (r: Result<Matrix, ConversionError>)
    ensures matrix_ok(config.matrix_coefficients, config.color_primaries) <==> r is Ok,
            r is Ok ==> r->Ok_0 == s_dec_matrix(config),
            !matrix_ok(config.matrix_coefficients, config.color_primaries) ==> r == Err::<Matrix, ConversionError>(matrix_err(config.matrix_coefficients, config.color_primaries)),
{ unimplemented!() }
#[verifier::external_body] pub fn get_rgb_to_yuv_matrix(config: YuvConfig) -> (r: Result<Matrix, ConversionError>)
    ensures matrix_ok(config.matrix_coefficients, config.color_primaries) <==> r is Ok,
            r is Ok ==> r->Ok_0 == s_enc_matrix(config),
            !matrix_ok(config.matrix_coefficients, config.color_primaries) ==> r == Err::<Matrix, ConversionError>(matrix_err(config.matrix_coefficients, config.color_primaries)),
{ unimplemented!() }
// R-itermap (cut): stands for  input.iter().map(|pix| transform.mul_arr(*pix)).collect::<Vec<_>>()
#[verifier::external_body] fn map_mul_arr(transform: &Matrix, input: &[[f32; 3]]) -> (r: Vec<[f32; 3]>)
    ensures mapped(*transform, input@, r@) { unimplemented!() }
// XYB / HSL per-image kernels (iterator loops Verus cannot ingest): uninterpreted, deterministic
#[verifier::external_body] pub fn linear_rgb_to_xyb(input: Vec<[f32; 3]>) -> (r: Vec<[f32; 3]>) ensures r@ == s_to_xyb(input@), r@.len() == input@.len() { unimplemented!() }
#[verifier::external_body] pub fn xyb_to_linear_rgb(input: Vec<[f32; 3]>) -> (r: Vec<[f32; 3]>) ensures r@ == s_from_xyb(input@), r@.len() == input@.len() { unimplemented!() }
#[verifier::external_body] fn lrgb_to_hsl(rgb: [f32; 3]) -> (r: [f32; 3]) ensures r == s_hsl_px(rgb) { unimplemented!() }
#[verifier::external_body] fn hsl_to_lrgb(hsl: [f32; 3]) -> (r: [f32; 3]) ensures r == s_lrgb_px(hsl) { unimplemented!() }
"""

def resmap(txt, pat, repl, desc, g):
    txt2, n = re.subn(pat, repl, txt, flags=re.S)
    if n != 1: raise AnchorLost('R-resmap anchor lost: ' + desc)
    g.dropped.append(desc)
    return txt2

MAPVEC = re.compile(r'for pix in &mut (\w+) \{\s*\*pix = (.*?)\(\*pix\);\s*\}', re.S)
def mapvec(txt, g, inv_extra=''):
    """R-mapvec: `for pix in &mut v { *pix = F(*pix); }` -> index loop applying the same expression F to every element."""
    def sub(m):
        v, f = m.group(1), m.group(2)
        return (f'let ghost {v}_0 = {v}@;\n    let mut i_: usize = 0;\n    while i_ < {v}.len()\n        invariant {v}@.len() == {v}_0.len(), 0 <= i_ <= {v}@.len(),\n'
                f'            forall|k: int| i_ <= k < {v}@.len() ==> #[trigger] {v}@[k] == {v}_0[k],\n{inv_extra.replace("@V@", v)}'
                f'        decreases {v}@.len() - i_\n    {{\n        let p_ = {v}[i_];\n        {v}.set(i_, {f}(p_));\n        i_ += 1;\n    }}')
    txt2, n = MAPVEC.subn(sub, txt)
    if n != 1: raise AnchorLost('R-mapvec: per-pixel loop changed shape')
    g.dropped.append('R-mapvec: `for pix in &mut v { *pix = F(*pix); }` -> index loop with invariant applying the same F to each element once, in place')
    return txt2

def tryfrom_specimpl(header):
    """Spec-side boilerplate for `impl[<T: Pixel>] TryFrom<A> for B` / `From<A> for B` (obeys_*_spec = false: the
    contract is the `ensures` on the impl fn itself)."""
    m = re.match(r'impl(<T: Pixel>)?\s+(TryFrom|From)<(.*)> for (.+)$', header)
    gen, kind, a, b = m.group(1) or '', m.group(2), m.group(3), m.group(4)
    if kind == 'TryFrom':
        return (f'impl{gen} vstd::std_specs::convert::TryFromSpecImpl<{a}> for {b} {{\n'
                f'    open spec fn obeys_try_from_spec() -> bool {{ false }}\n'
                f'    open spec fn try_from_spec(v: {a}) -> Result<Self, Self::Error> {{ arbitrary() }}\n}}\n')
    return (f'impl{gen} vstd::std_specs::convert::FromSpecImpl<{a}> for {b} {{\n'
            f'    open spec fn obeys_from_spec() -> bool {{ false }}\n'
            f'    open spec fn from_spec(v: {a}) -> Self {{ arbitrary() }}\n}}\n')

def build(repo):
    g = u_planes.build(repo)          # verified base: Yuv, YuvConfig, Yuv::new, heuristics, both plane loops
    g.name = 'u_dispatch'
    import u_ctor
    u_ctor.add(repo, g)               # Rgb / LinearRgb / Xyb / Hsl with their constructors
    g.add(u_color.errors_enum(repo))
    # spec tables shared with U-color (same text): matrix_ok / matrix_err / primaries_ok ...
    cs = u_color.SPEC
    keep = cs[cs.index('// C14: which matrix'):cs.index('pub open spec fn res_m3')]
    std = cs[cs.index('pub open spec fn std_krkb'):cs.index('// ITU-T H.273 Table 4')]
    g.add(std + keep)
    tsrc = RustSrc(os.path.join(repo, 'src/yuv_rgb/transfer.rs'))
    pairs = curve_pairs(tsrc)
    if len(pairs) != 18: raise AnchorLost(f'transfer.rs: {len(pairs)} image_transfer_fn! invocations (expected 18)')
    g.add('pub enum Curve { ' + ', '.join(camel(s) for _, s in pairs) + ' }\n')
    g.add(SPEC_HEAD); g.add(OPAQUE)
    # image_* stubs: one per macro invocation, keyed by the SCALAR function the invocation names
    for img, sc in pairs:
        g.add(f'#[verifier::external_body] fn {img}(input: Vec<[f32; 3]>) -> (r: Vec<[f32; 3]>)\n'
              f'    ensures r@ == s_img(Curve::{camel(sc)}, input@), r@.len() == input@.len() {{ unimplemented!() }}\n')
    g.dropped.append('transfer.rs: each `image_transfer_fn!(image_X, X)` invocation becomes a stub `image_X` whose assumed contract is "maps the scalar curve X over the flattened image" (flatten checked by the bounded Kani harness flatten_len_*)')
    # ---- to_linear / to_gamma (R-traitimpl: trait impl -> inherent impl on the locally declared enum)
    im = tsrc.find_impl(r'^impl TransferFunction for TransferCharacteristic$')
    parts = []
    for fn, spec in (('to_linear', 'to_linear_spec'), ('to_gamma', 'to_gamma_spec')):
        sp = tsrc.find('fn', fn, within=(im[2], im[3]), keep_attrs=True)
        c = C(ensures=['transfer_ok(*self) <==> r is Ok',
                       f'r is Ok ==> r->Ok_0@ == {spec}(*self, input@)',
                       'r is Err ==> r->Err_0 == transfer_err(*self)',
                       'r is Ok ==> r->Ok_0@.len() == input@.len()',
                       # C03: Linear is the bit-exact identity (the very same Vec is returned)
                       '*self == TransferCharacteristic::Linear ==> r == Ok::<Vec<[f32; 3]>, ConversionError>(input)'])
        g.under_contract.append({'fn': f'TransferCharacteristic::{fn}', 'src': f'src/yuv_rgb/transfer.rs:{tsrc.line_of(sp[0])}', 'requires': [], 'ensures': c.ensures})
        txt = tsrc.get(sp).replace('fn ' + fn, 'pub fn ' + fn, 1)
        parts.append(apply_contract(txt, c, g.dropped))
    g.add('impl TransferCharacteristic {\n' + '\n'.join(parts) + '\n}\n')
    g.dropped.append('R-traitimpl: `impl TransferFunction for TransferCharacteristic` -> inherent impl (same method names, so call sites are unchanged)')
    # ---- color.rs: get_primaries_xy, get_primaries_xyz, gamut_*, transform_primaries, yuv_to_rgb, rgb_to_yuv
    csrc = RustSrc(os.path.join(repo, 'src/yuv_rgb/color.rs'))
    def cfn(name, c, pre=None):
        sp = csrc.find('fn', name, keep_attrs=True)
        txt = csrc.get(sp)
        if pre: txt = pre(txt)
        g.under_contract.append({'fn': name, 'src': f'src/yuv_rgb/color.rs:{csrc.line_of(sp[0])}', 'requires': c.requires, 'ensures': c.ensures})
        g.add(apply_contract(txt, c, g.dropped))
    cfn('get_primaries_xy', C(strip_const=True, ensures=['primaries_xy_ok(primaries) <==> r is Ok',
        '!primaries_xy_ok(primaries) ==> r == Err::<[[f32; 2]; 3], ConversionError>(primaries_err(primaries))']))
    cfn('get_primaries_xyz', C(ensures=['primaries_xy_ok(primaries) <==> r is Ok',
        '!primaries_xy_ok(primaries) ==> r == Err::<Matrix, ConversionError>(primaries_err(primaries))']),
        pre=lambda t: resmap(t, r'get_primaries_xy\(primaries\)\s*\.map\(\|\[r, g, b\]\| \{\s*Matrix::new\(\s*RowVector::from\(xy_to_xyz\(r\)\),\s*RowVector::from\(xy_to_xyz\(g\)\),\s*RowVector::from\(xy_to_xyz\(b\)\),\s*\)\s*\}\)\s*\.map\(Matrix::transpose\)',
            'match get_primaries_xy(primaries) { Ok(a_) => { let r = a_[0]; let g = a_[1]; let b = a_[2]; Ok(Matrix::transpose(Matrix::new(rowvector_from(xy_to_xyz(r)), rowvector_from(xy_to_xyz(g)), rowvector_from(xy_to_xyz(b))))) }, Err(e) => Err(e) }',
            'R-resmap/R-arrpat: get_primaries_xyz `.map(|[r,g,b]| ..).map(Matrix::transpose)` -> match; RowVector::from -> rowvector_from (opaque)', g))
    g.add('pub mod gamut_real {\nuse super::*;\n')
    cfn('gamut_rgb_to_xyz_matrix', C(ensures=['primaries_ok(primaries) <==> r is Ok',
        '!primaries_ok(primaries) ==> r == Err::<Matrix, ConversionError>(primaries_err(primaries))']),
        pre=lambda t: t.replace('ColVector::from(', 'colvector_from(').replace('fn gamut_rgb_to_xyz_matrix', 'pub fn gamut_rgb_to_xyz_matrix'))
    cfn('gamut_xyz_to_rgb_matrix', C(ensures=['primaries_ok(primaries) <==> r is Ok',
        '!primaries_ok(primaries) ==> r == Err::<Matrix, ConversionError>(primaries_err(primaries))']),
        pre=lambda t: resmap(t, r'gamut_rgb_to_xyz_matrix\(primaries\)\.map\(\|m\| m\.invert\(\)\)',
            'match gamut_rgb_to_xyz_matrix(primaries) { Ok(m) => Ok(m.invert()), Err(e) => Err(e) }', 'R-resmap: gamut_xyz_to_rgb_matrix `.map(|m| m.invert())` -> match', g).replace('fn gamut_xyz_to_rgb_matrix', 'pub fn gamut_xyz_to_rgb_matrix'))
    g.add('}\n')
    # top-level: same Ok/Err contract (proved just above on the real bodies) + the value is NAMED s_r2x/s_x2r (sound for a pure function of `primaries`)
    for nm, sf in (('gamut_rgb_to_xyz_matrix', 's_r2x'), ('gamut_xyz_to_rgb_matrix', 's_x2r')):
        g.add(f'''#[verifier::external_body] fn {nm}(primaries: ColorPrimaries) -> (r: Result<Matrix, ConversionError>)
    ensures primaries_ok(primaries) <==> r is Ok, r is Ok ==> r->Ok_0 == {sf}(primaries),
            !primaries_ok(primaries) ==> r == Err::<Matrix, ConversionError>(primaries_err(primaries)) {{ unimplemented!() }}\n''')
    g.assumed.append('gamut_rgb_to_xyz_matrix / gamut_xyz_to_rgb_matrix: Ok/Err proved on the real bodies (mod gamut_real); their values are named by uninterpreted functions of `primaries` (purity)')
    def tp_pre(t):
        t, n = re.subn(r'mut input: Vec<\[f32; 3\]>', 'input0: Vec<[f32; 3]>', t)
        if n != 1: raise AnchorLost('transform_primaries signature changed')
        t = t.replace('{', '{\n    let mut input = input0;', 1)
        g.dropped.append('R-mutlocal: `mut input` parameter of transform_primaries bound to a local')
        return mapvec(t, g, '            forall|k: int| 0 <= k < i_ ==> #[trigger] @V@@[k] == s_mul_arr(transform, @V@_0[k]),\n')
    cfn('transform_primaries', C(ensures=[
        # C06: identical primaries leave the data bit-exactly unchanged (the very same Vec)
        'in_primaries == out_primaries ==> r == Ok::<Vec<[f32; 3]>, ConversionError>(input0)',
        # C14
        'prim_conv_ok(in_primaries, out_primaries) <==> r is Ok',
        'r is Err ==> r->Err_0 == prim_conv_err(in_primaries, out_primaries)',
        # C06/C11: one matrix, composed as gamut_xyz_to_rgb(out) * white_point_adaptation(in,out) * gamut_rgb_to_xyz(in), applied to every pixel in place
        'r is Ok ==> r->Ok_0@ =~= prim_spec(input0@, in_primaries, out_primaries)',
        'r is Ok ==> r->Ok_0@.len() == input0@.len()']), pre=tp_pre)
    def y2r_pre(t):
        t = t.replace('<T: Pixel>', '<T: Pixel>')
        return mapvec(t, g, '            forall|k: int| 0 <= k < i_ ==> #[trigger] @V@@[k] == s_mul_arr(transform, @V@_0[k]),\n')
    cfn('yuv_to_rgb', C(requires=['yuv_wf(*input)'], ensures=[
        'matrix_ok(input.config.matrix_coefficients, input.config.color_primaries) <==> r is Ok',
        'r is Err ==> r->Err_0 == matrix_err(input.config.matrix_coefficients, input.config.color_primaries)',
        # C11: width*height pixels, each the decode matrix applied to the pixel produced by ycbcr_to_ypbpr
        'r is Ok ==> r->Ok_0@.len() == input.data.planes[0].cfg.width * input.data.planes[0].cfg.height',
        'r is Ok ==> forall|y: int, x: int| 0 <= y < input.data.planes[0].cfg.height && 0 <= x < input.data.planes[0].cfg.width ==> #[trigger] dec_px(*input, r->Ok_0@, y, x)'],
        inserts=[('Ok(data)', 'before', '''    proof {
        let w = input.data.planes[0].cfg.width as int; let h = input.data.planes[0].cfg.height as int;
        assert forall|y: int, x: int| 0 <= y < h && 0 <= x < w implies #[trigger] dec_px(*input, data@, y, x) by {
            lemma_cell(y, h, w, x);
            let px = data_0[cell(y, w, x)];
            assert(ypbpr_at(*input, y, x, px));
            assert(data@[cell(y, w, x)] == s_mul_arr(transform, px));
        }
    }''')]),
        pre=y2r_pre)
    def r2y_pre(t):
        t, n = re.subn(r'let yuv: Vec<_> = input\.iter\(\)\.map\(\|pix\| transform\.mul_arr\(\*pix\)\)\.collect\(\);', 'let yuv = map_mul_arr(&transform, input);', t)
        if n != 1: raise AnchorLost('rgb_to_yuv: the iterator expression changed shape')
        g.dropped.append('R-itermap: rgb_to_yuv `input.iter().map(|pix| transform.mul_arr(*pix)).collect()` cut to stub map_mul_arr (assumed: pointwise map)')
        return t
    cfn('rgb_to_yuv', C(requires=['input@.len() == width * height', 'width * height <= usize::MAX', 'enc_cfg_ok(config, width, height)'], ensures=[
        'matrix_ok(config.matrix_coefficients, config.color_primaries) <==> r is Ok',
        'r is Err ==> r->Err_0 == matrix_err(config.matrix_coefficients, config.color_primaries)',
        'r is Ok ==> yuv_wf(r->Ok_0) && r->Ok_0.config == fix_spec(config, width as int, height as int) '
        '&& r->Ok_0.data.planes[0].cfg.width == width && r->Ok_0.data.planes[0].cfg.height == height']), pre=r2y_pre)
    g.assumed += ['get_yuv_to_rgb_matrix / get_rgb_to_yuv_matrix Ok/Err contracts are assumed in this unit and PROVED on the real code in U-color (identical spec text)',
                  'XYB and HSL per-image kernels and the 18 image_* curve maps are uninterpreted deterministic functions',
                  'type invariants yuv_wf / rgb_wf / lrgb_wf are stated as preconditions of the conversions (fields are private in the repo; every value comes from a verified constructor or conversion)']
    add_conversions(repo, g)
    return g

CONV_SPEC = r'''
// =====================================================================================================
// C14 / C15 / C11 predicates of the conversion graph (from the property statements)
// =====================================================================================================
pub open spec fn xyb_wf(r: Xyb) -> bool { r.data@.len() == r.width * r.height && r.width * r.height <= usize::MAX }
pub open spec fn hsl_wf(r: Hsl) -> bool { r.data@.len() == r.width * r.height && r.width * r.height <= usize::MAX }
pub open spec fn yuv_w<T: Pixel>(y: Yuv<T>) -> usize { y.data.planes[0].cfg.width }
pub open spec fn yuv_h<T: Pixel>(y: Yuv<T>) -> usize { y.data.planes[0].cfg.height }
// YUV <-> RGB: one predicate for both directions (symmetry), error names the matrix (or, for primaries-derived matrices, the primaries)
pub open spec fn yuv_rgb_ok(c: YuvConfig) -> bool { matrix_ok(c.matrix_coefficients, c.color_primaries) }
pub open spec fn yuv_rgb_err(c: YuvConfig) -> ConversionError { matrix_err(c.matrix_coefficients, c.color_primaries) }
// gamma <-> linear (with the primaries stage to/from the BT.709 working space)
pub open spec fn rgb_lrgb_ok(t: TransferCharacteristic, p: ColorPrimaries) -> bool { transfer_ok(t) && prim_conv_ok(p, ColorPrimaries::BT709) }
pub open spec fn to_lrgb_err(t: TransferCharacteristic, p: ColorPrimaries) -> ConversionError {
    if !transfer_ok(t) { transfer_err(t) } else { prim_conv_err(p, ColorPrimaries::BT709) }
}
pub open spec fn from_lrgb_err(t: TransferCharacteristic, p: ColorPrimaries) -> ConversionError {
    if !prim_conv_ok(ColorPrimaries::BT709, p) { prim_conv_err(ColorPrimaries::BT709, p) } else { transfer_err(t) }
}
// what Rgb::try_from(&Yuv) produces
pub open spec fn rgb_of_yuv<T: Pixel>(y: Yuv<T>, r: Rgb) -> bool {
    r.width == yuv_w(y) && r.height == yuv_h(y) && r.transfer == y.config.transfer_characteristics && r.primaries == y.config.color_primaries
    && rgb_wf(r)
    && forall|yy: int, xx: int| 0 <= yy < yuv_h(y) && 0 <= xx < yuv_w(y) ==> #[trigger] dec_px(y, r.data@, yy, xx)
}
// what LinearRgb::try_from(Rgb) produces: the curve named by the LABEL of the source, then primaries label -> BT.709
pub open spec fn lrgb_of_rgb(s: Rgb, r: LinearRgb) -> bool {
    r.width == s.width && r.height == s.height && lrgb_wf(r)
    && r.data@ =~= prim_spec(to_linear_spec(s.transfer, s.data@), s.primaries, ColorPrimaries::BT709)
}
// what Rgb::try_from((LinearRgb, t, p)) produces: labelled with the RESOLVED t, p and encoded with exactly those (C15)
pub open spec fn rgb_of_lrgb(s: LinearRgb, t0: TransferCharacteristic, p0: ColorPrimaries, r: Rgb) -> bool {
    r.width == s.width && r.height == s.height && rgb_wf(r)
    && r.transfer == rgb_transfer_spec(t0) && r.primaries == rgb_primaries_spec(p0)
    && r.transfer != TransferCharacteristic::Unspecified && r.primaries != ColorPrimaries::Unspecified
    && r.data@ =~= to_gamma_spec(r.transfer, prim_spec(s.data@, ColorPrimaries::BT709, r.primaries))
}
// what Yuv::try_from((&Rgb, cfg)) produces
pub open spec fn yuv_of_rgb<T: Pixel>(s: Rgb, c: YuvConfig, r: Yuv<T>) -> bool {
    yuv_wf(r) && r.config == fix_spec(c, s.width as int, s.height as int) && yuv_w(r) == s.width && yuv_h(r) == s.height
}
// C14 lemmas: symmetry, always-supported sets, independence
pub proof fn lemma_c14_symmetry(c: YuvConfig, t: TransferCharacteristic, p: ColorPrimaries)
    ensures
        // the 7 standard matrices always succeed, whatever transfer / primaries say (independence from unused metadata)
        std7(c.matrix_coefficients) ==> yuv_rgb_ok(c),
        // 14 curves x 11 primaries always succeed
        transfer_ok(t) && primaries_ok(p) ==> rgb_lrgb_ok(t, p),
        // both directions of gamma<->linear use the same predicate; when exactly one stage fails both name the same field
        !transfer_ok(t) && primaries_ok(p) ==> to_lrgb_err(t, p) == from_lrgb_err(t, p),
        transfer_ok(t) && !primaries_ok(p) && p != ColorPrimaries::BT709 ==> to_lrgb_err(t, p) == from_lrgb_err(t, p),
{}
'''

# (file, impl header regex, fn name, contract, pre-rewrites)
def conv_table(g):
    Y = 'yuv_wf'
    T = []
    # ---------------- rgb.rs
    T.append(('rgb', r'^impl<T: Pixel> TryFrom<&Yuv<T>> for Rgb$', C(
        requires=['yuv_wf(*yuv)'],
        ensures=['yuv_rgb_ok(yuv.config) <==> r is Ok', 'r is Err ==> r->Err_0 == yuv_rgb_err(yuv.config)',
                 'r is Ok ==> rgb_of_yuv(*yuv, r->Ok_0)'],
        head='        proof { lemma_area_fits(yuv.data.planes[0]); }')))
    T.append(('rgb', r'^impl<T: Pixel> TryFrom<Yuv<T>> for Rgb$', C(
        requires=['yuv_wf(yuv)'],
        ensures=['yuv_rgb_ok(yuv.config) <==> r is Ok', 'r is Err ==> r->Err_0 == yuv_rgb_err(yuv.config)', 'r is Ok ==> rgb_of_yuv(yuv, r->Ok_0)'])))
    T.append(('rgb', r'^impl TryFrom<\(LinearRgb, TransferCharacteristic, ColorPrimaries\)> for Rgb$', C(
        requires=['lrgb_wf(other.0)'],
        ensures=['rgb_lrgb_ok(rgb_transfer_spec(other.1), rgb_primaries_spec(other.2)) <==> r is Ok',
                 'r is Err ==> r->Err_0 == from_lrgb_err(rgb_transfer_spec(other.1), rgb_primaries_spec(other.2))',
                 'r is Ok ==> rgb_of_lrgb(other.0, other.1, other.2, r->Ok_0)'])))
    T.append(('rgb', r'^impl TryFrom<\(Xyb, TransferCharacteristic, ColorPrimaries\)> for Rgb$', C(
        requires=['xyb_wf(other.0)'],
        ensures=['rgb_lrgb_ok(rgb_transfer_spec(other.1), rgb_primaries_spec(other.2)) <==> r is Ok',
                 'r is Err ==> r->Err_0 == from_lrgb_err(rgb_transfer_spec(other.1), rgb_primaries_spec(other.2))',
                 'r is Ok ==> r->Ok_0.width == other.0.width && r->Ok_0.height == other.0.height && rgb_wf(r->Ok_0)'])))
    # ---------------- linear_rgb.rs
    T.append(('linear_rgb', r'^impl TryFrom<Rgb> for LinearRgb$', C(
        requires=['rgb_wf(rgb)'],
        ensures=['rgb_lrgb_ok(rgb.transfer, rgb.primaries) <==> r is Ok', 'r is Err ==> r->Err_0 == to_lrgb_err(rgb.transfer, rgb.primaries)',
                 'r is Ok ==> lrgb_of_rgb(rgb, r->Ok_0)'])))
    T.append(('linear_rgb', r'^impl<T: Pixel> TryFrom<&Yuv<T>> for LinearRgb$', C(
        requires=['yuv_wf(*yuv)'],
        ensures=['(yuv_rgb_ok(yuv.config) && rgb_lrgb_ok(yuv.config.transfer_characteristics, yuv.config.color_primaries)) <==> r is Ok',
                 'r is Err ==> r->Err_0 == (if !yuv_rgb_ok(yuv.config) { yuv_rgb_err(yuv.config) } else { to_lrgb_err(yuv.config.transfer_characteristics, yuv.config.color_primaries) })',
                 'r is Ok ==> r->Ok_0.width == yuv_w(*yuv) && r->Ok_0.height == yuv_h(*yuv) && lrgb_wf(r->Ok_0)'])))
    T.append(('linear_rgb', r'^impl<T: Pixel> TryFrom<Yuv<T>> for LinearRgb$', C(
        requires=['yuv_wf(yuv)'],
        ensures=['(yuv_rgb_ok(yuv.config) && rgb_lrgb_ok(yuv.config.transfer_characteristics, yuv.config.color_primaries)) <==> r is Ok',
                 'r is Ok ==> r->Ok_0.width == yuv_w(yuv) && r->Ok_0.height == yuv_h(yuv) && lrgb_wf(r->Ok_0)'])))
    T.append(('linear_rgb', r'^impl From<Xyb> for LinearRgb$', C(
        ensures=['r.width == xyb.width && r.height == xyb.height && r.data@ == s_from_xyb(xyb.data@)', 'xyb_wf(xyb) ==> lrgb_wf(r)'])))
    T.append(('linear_rgb', r'^impl From<Hsl> for LinearRgb$', C(
        ensures=['r.width == hsl.width && r.height == hsl.height', 'r.data@ =~= map_px(hsl.data@, |p: [f32; 3]| s_lrgb_px(p))', 'hsl_wf(hsl) ==> lrgb_wf(r)']), 'mapvec'))
    # ---------------- xyb.rs
    T.append(('xyb', r'^impl From<LinearRgb> for Xyb$', C(
        ensures=['r.width == lrgb.width && r.height == lrgb.height && r.data@ == s_to_xyb(lrgb.data@)', 'lrgb_wf(lrgb) ==> xyb_wf(r)'])))
    T.append(('xyb', r'^impl TryFrom<Rgb> for Xyb$', C(
        requires=['rgb_wf(rgb)'],
        ensures=['rgb_lrgb_ok(rgb.transfer, rgb.primaries) <==> r is Ok', 'r is Err ==> r->Err_0 == to_lrgb_err(rgb.transfer, rgb.primaries)',
                 'r is Ok ==> r->Ok_0.width == rgb.width && r->Ok_0.height == rgb.height && xyb_wf(r->Ok_0)'])))
    T.append(('xyb', r'^impl<T: Pixel> TryFrom<&Yuv<T>> for Xyb$', C(
        requires=['yuv_wf(*yuv)'],
        ensures=['(yuv_rgb_ok(yuv.config) && rgb_lrgb_ok(yuv.config.transfer_characteristics, yuv.config.color_primaries)) <==> r is Ok',
                 'r is Err ==> r->Err_0 == (if !yuv_rgb_ok(yuv.config) { yuv_rgb_err(yuv.config) } else { to_lrgb_err(yuv.config.transfer_characteristics, yuv.config.color_primaries) })',
                 'r is Ok ==> r->Ok_0.width == yuv_w(*yuv) && r->Ok_0.height == yuv_h(*yuv) && xyb_wf(r->Ok_0)'])))
    T.append(('xyb', r'^impl<T: Pixel> TryFrom<Yuv<T>> for Xyb$', C(
        requires=['yuv_wf(yuv)'],
        ensures=['(yuv_rgb_ok(yuv.config) && rgb_lrgb_ok(yuv.config.transfer_characteristics, yuv.config.color_primaries)) <==> r is Ok',
                 'r is Ok ==> r->Ok_0.width == yuv_w(yuv) && r->Ok_0.height == yuv_h(yuv) && xyb_wf(r->Ok_0)'])))
    # ---------------- hsl.rs
    T.append(('hsl', r'^impl From<LinearRgb> for Hsl$', C(
        ensures=['r.width == lrgb.width && r.height == lrgb.height', 'r.data@ =~= map_px(lrgb.data@, |p: [f32; 3]| s_hsl_px(p))', 'lrgb_wf(lrgb) ==> hsl_wf(r)']), 'mapvec'))
    # ---------------- yuv.rs
    T.append(('yuv', r'^impl<T: Pixel> TryFrom<\(&Rgb, YuvConfig\)> for Yuv<T>$', C(
        requires=['rgb_wf(*other.0)', 'enc_cfg_ok(other.1, other.0.width, other.0.height)'],
        ensures=['yuv_rgb_ok(other.1) <==> r is Ok', 'r is Err ==> r->Err_0 == yuv_rgb_err(other.1)',
                 'r is Ok ==> yuv_of_rgb(*other.0, other.1, r->Ok_0)'])))
    T.append(('yuv', r'^impl<T: Pixel> TryFrom<\(Rgb, YuvConfig\)> for Yuv<T>$', C(
        requires=['rgb_wf(other.0)', 'enc_cfg_ok(other.1, other.0.width, other.0.height)'],
        ensures=['yuv_rgb_ok(other.1) <==> r is Ok', 'r is Err ==> r->Err_0 == yuv_rgb_err(other.1)',
                 'r is Ok ==> yuv_of_rgb(other.0, other.1, r->Ok_0)'])))
    LAB = ('r is Ok ==> yuv_wf(r->Ok_0) && r->Ok_0.config == fix_spec(other.1, other.0.width as int, other.0.height as int) '
           '&& yuv_w(r->Ok_0) == other.0.width && yuv_h(r->Ok_0) == other.0.height')
    T.append(('yuv', r'^impl<T: Pixel> TryFrom<\(LinearRgb, YuvConfig\)> for Yuv<T>$', C(
        requires=['lrgb_wf(other.0)', 'enc_cfg_ok(other.1, other.0.width, other.0.height)'],
        ensures=[LAB,
                 # C15 label = content: the transfer/primaries the RGB stage encodes with are the ones the output is LABELLED with
                 'r is Ok ==> exists|g_: Rgb| #[trigger] rgb_of_lrgb(other.0, r->Ok_0.config.transfer_characteristics, r->Ok_0.config.color_primaries, g_) '
                 '&& g_.transfer == r->Ok_0.config.transfer_characteristics && g_.primaries == r->Ok_0.config.color_primaries && yuv_of_rgb(g_, other.1, r->Ok_0)'])))
    T.append(('yuv', r'^impl<T: Pixel> TryFrom<\(Xyb, YuvConfig\)> for Yuv<T>$', C(
        requires=['xyb_wf(other.0)', 'enc_cfg_ok(other.1, other.0.width, other.0.height)'],
        ensures=[LAB])))
    return T

TAGS = [
    (r'TryFrom<&Yuv<T>> for (\w+)$', 'ref_yuv'), (r'TryFrom<Yuv<T>> for (\w+)$', 'yuv'),
    (r'TryFrom<\(LinearRgb, TransferCharacteristic, ColorPrimaries\)> for (Rgb)$', 'lrgb3'),
    (r'TryFrom<\(Xyb, TransferCharacteristic, ColorPrimaries\)> for (Rgb)$', 'xyb3'),
    (r'TryFrom<Rgb> for (\w+)$', 'rgb'), (r'From<Xyb> for (LinearRgb)$', 'xyb'), (r'From<Hsl> for (LinearRgb)$', 'hsl'),
    (r'From<LinearRgb> for (\w+)$', 'lrgb'),
    (r'TryFrom<\(&Rgb, YuvConfig\)> for (Yuv)<T>$', 'refrgb_cfg'), (r'TryFrom<\(Rgb, YuvConfig\)> for (Yuv)<T>$', 'rgb_cfg'),
    (r'TryFrom<\(LinearRgb, YuvConfig\)> for (Yuv)<T>$', 'lrgb_cfg'), (r'TryFrom<\(Xyb, YuvConfig\)> for (Yuv)<T>$', 'xyb_cfg'),
]
# call-site resolution: (regex on the call text, replacement).  `{self}` is the lower-cased target type of the enclosing impl.
# Each rule is determined by the static type of the argument (see DESIGN: R-tryfrom); an unknown call shape is a lost anchor.
CALLS = [
    (r'Self::try_from\(&yuv\)', '{self}_from_ref_yuv(&yuv)'),
    (r'Rgb::try_from\(yuv\)', 'rgb_from_ref_yuv(yuv)'),
    (r'Self::try_from\(\(lrgb, other\.1, other\.2\)\)', 'rgb_from_lrgb3((lrgb, other.1, other.2))'),
    (r'Rgb::try_from\(\(\s*([^,()]+),\s*([^,()]+),\s*([^,()]+?),?\s*\)\)', r'rgb_from_lrgb3((\1, \2, \3))'),
    (r'Self::try_from\(rgb\)', '{self}_from_rgb(rgb)'),
    (r'LinearRgb::try_from\(rgb\)', 'linearrgb_from_rgb(rgb)'),
    (r'LinearRgb::from\(other\.0\)', 'linearrgb_from_xyb(other.0)'),
    (r'Self::from\(lrgb\)', 'xyb_from_lrgb(lrgb)'),
    (r'Self::try_from\(\(lrgb, other\.1\)\)', 'yuv_from_lrgb_cfg((lrgb, other.1))'),
    (r'Self::try_from\(\(&other\.0, other\.1\)\)', 'yuv_from_refrgb_cfg((&other.0, other.1))'),
    (r'Self::try_from\(\(&rgb, config\)\)', 'yuv_from_refrgb_cfg((&rgb, config))'),
]

def add_conversions(repo, g):
    g.add(CONV_SPEC)
    order = ['rgb', 'linear_rgb', 'xyb', 'hsl', 'yuv']
    srcs = {f: RustSrc(os.path.join(repo, f'src/{f}.rs')) for f in order}
    for (f, hdr, c, *opt) in conv_table(g):
        src = srcs[f]
        im = src.find_impl(hdr)
        header = ' '.join(src.text[im[0]:im[2] - 1].split())
        tag = target = None
        for rx, tg in TAGS:
            m = re.search(rx, header)
            if m: tag, target = tg, m.group(1); break
        if not tag: raise AnchorLost('unknown conversion impl: ' + header)
        gen = '<T: Pixel>' if '<T: Pixel>' in header else ''
        tty = 'Yuv<T>' if target == 'Yuv' else target
        name = f'{target.lower()}_from_{tag}'
        body = src.text[im[2]:im[3]]
        bsrc = RustSrc(src.path, body)
        fname = 'try_from' if 'TryFrom' in header else 'from'
        sp = bsrc.find('fn', fname, keep_attrs=True)
        txt = bsrc.get(sp)
        txt, nlog = re.subn(r'log::warn!\((?:[^()]|\([^()]*\))*\);', '', txt)
        if nlog: g.dropped.append(f'R-logwarn: {nlog} `log::warn!` removed from {header}')
        if opt and opt[0] == 'mapvec':
            k = 's_lrgb_px' if 'From<Hsl>' in header else 's_hsl_px'
            txt = mapvec(txt, g, f'            forall|k: int| 0 <= k < i_ ==> #[trigger] @V@@[k] == {k}(@V@_0[k]),\n')
        for rx, rep in CALLS:
            txt = re.sub(rx, rep.replace('{self}', target.lower()), txt)
        if re.search(r'\b\w+::(try_)?from\(', txt):
            raise AnchorLost(f'{header}: unresolved conversion call: ' + re.search(r'\b\w+::(try_)?from\([^;]*', txt).group(0)[:80])
        txt = re.sub(r'\bfn ' + fname + r'\(', f'fn {name}{gen}(', txt, count=1)
        txt = txt.replace('Result<Self, Self::Error>', f'Result<{tty}, ConversionError>')
        txt = re.sub(r'\bSelf\b', tty.replace('<T>', '::<T>') if False else target, txt)
        txt = txt.replace(f'-> {target} ', f'-> {tty} ') if target == 'Yuv' else txt
        g.under_contract.append({'fn': f'{header}  (as {name})', 'src': f'src/{f}.rs:{src.line_of(im[0])}', 'requires': c.requires, 'ensures': c.ensures})
        g.add(apply_contract(txt, c, g.dropped))
    g.dropped.append('R-tryfrom: each `impl TryFrom<A> for B` / `impl From<A> for B` body is verified as a free function `b_from_<a>` '
                     '(Verus forbids `requires` on trait-method impls); conversion calls inside the bodies are resolved to these functions by the static type of their argument')
