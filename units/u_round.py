"""U-round: the real `Matrix::mul_arr` (yuvxyb-math/src/matrix.rs), generic, verified for every T obeying the STANDARD MODEL of
binary32 arithmetic (trait Rounded): an a-priori bound on its rounding error for the operand magnitudes of the decode path, and
the composition lemma behind C01's 3e-6 budget for ALL code triples simultaneously:
    |f32 result - H.273 value| <= (rounding of mul_arr) + (entry errors x operands) + (|entries| x normalisation errors) < 3e-6
where the entry / normalisation error bounds are the ones Kani proves bit-precisely (decode_*: 4e-7, norm_*: 1.2e-7)."""
import re, os
from rsx import RustSrc, AnchorLost
from vgen import C, Gen, apply_contract, strip_attrs_and_docs
import preamble

REL = 'yuvxyb-math/src/matrix.rs'

SPEC = r'''
pub struct V3 { pub x: real, pub y: real, pub z: real }
pub open spec fn v3(x: real, y: real, z: real) -> V3 { V3 { x, y, z } }
pub open spec fn dot(a: V3, b: V3) -> real { a.x * b.x + a.y * b.y + a.z * b.z }
pub open spec fn absum(a: V3) -> real { absr(a.x) + absr(a.y) + absr(a.z) }
pub open spec fn rvv<T: Rounded>(r: RowVector<T>) -> V3 { v3(r.0.val(), r.1.val(), r.2.val()) }
pub open spec fn pvv<T: Rounded>(p: [T; 3]) -> V3 { v3(p[0].val(), p[1].val(), p[2].val()) }
// a-priori rounding bound of one row of mul_arr in terms of the three exact products a_k = r_k * v_k
pub open spec fn row_bound(a0: real, a1: real, a2: real) -> real { 0.00000006real * 3.1real * (absr(a0) + absr(a1) + absr(a2)) + 10real * 0.000000000000000000000000000000000000000000002real }
pub open spec fn row_err<T: Rounded>(r: RowVector<T>, p: [T; 3], out: T) -> bool {
    absr(out.val() - dot(rvv(r), pvv(p))) <= row_bound(r.0.val() * p[0].val(), r.1.val() * p[1].val(), r.2.val() * p[2].val())
}
// out = fma(r0, v0, fma(r1, v1, r2*v2)) with a_k the exact products: pure linear arithmetic over |a_k| once the model bounds are unfolded
pub proof fn lemma_row_error(a0: real, a1: real, a2: real, m2: real, s1: real, out: real)
    requires rnd(a2, m2), fma_bound(a1, m2, s1), fma_bound(a0, s1, out)
    ensures absr(out - (a0 + a1 + a2)) <= row_bound(a0, a1, a2)
{
    let u = 0.00000006real; let e = 0.000000000000000000000000000000000000000000002real;
    let x0 = absr(a0); let x1 = absr(a1); let x2 = absr(a2);
    assert(absr(m2) <= x2 + (u * x2 + e));
    assert(absr(s1 - (a1 + m2)) <= u * (2.0000001real * x1 + (x2 + (u * x2 + e))) + 3real * e);
    assert(absr(s1) <= x1 + (x2 + (u * x2 + e)) + (u * (2.0000001real * x1 + (x2 + (u * x2 + e))) + 3real * e));
}
pub proof fn lemma_abs_mul(a: real, b: real, ba: real, bb: real)
    by(nonlinear_arith)
    requires absr(a) <= ba, absr(b) <= bb
    ensures absr(a * b) <= ba * bb
{}
pub proof fn lemma_abs_mul_eq(a: real, b: real)
    by(nonlinear_arith)
    ensures absr(a * b) == absr(a) * absr(b)
{}
pub proof fn lemma_mul_mono(a: real, b: real, c: real)
    by(nonlinear_arith)
    requires 0real <= a <= b, 0real <= c
    ensures a * c <= b * c
{}
// sum_k |r_k v_k| <= sum_k |r_k| * bound_k
pub proof fn lemma_weighted(r: V3, v: V3, b0: real, b1: real, b2: real)
    requires absr(v.x) <= b0, absr(v.y) <= b1, absr(v.z) <= b2
    ensures absr(r.x * v.x) + absr(r.y * v.y) + absr(r.z * v.z) <= absr(r.x) * b0 + absr(r.y) * b1 + absr(r.z) * b2
{
    lemma_abs_mul_eq(r.x, v.x); lemma_abs_mul_eq(r.y, v.y); lemma_abs_mul_eq(r.z, v.z);
    lemma_mul_mono(absr(v.x), b0, absr(r.x)); lemma_mul_mono(absr(v.y), b1, absr(r.y)); lemma_mul_mono(absr(v.z), b2, absr(r.z));
    assert(absr(r.x) * absr(v.x) == absr(v.x) * absr(r.x)) by(nonlinear_arith);
    assert(absr(r.y) * absr(v.y) == absr(v.y) * absr(r.y)) by(nonlinear_arith);
    assert(absr(r.z) * absr(v.z) == absr(v.z) * absr(r.z)) by(nonlinear_arith);
    assert(absr(r.x) * b0 == b0 * absr(r.x)) by(nonlinear_arith);
    assert(absr(r.y) * b1 == b1 * absr(r.y)) by(nonlinear_arith);
    assert(absr(r.z) * b2 == b2 * absr(r.z)) by(nonlinear_arith);
}
// |d.v - D.V| <= sum_k |d_k - D_k||v_k| + sum_k |D_k||v_k - V_k|
pub proof fn lemma_dot_diff(d: V3, dd: V3, v: V3, vv: V3)
    ensures dot(d, v) - dot(dd, vv) == dot(v3(d.x - dd.x, d.y - dd.y, d.z - dd.z), v) + dot(dd, v3(v.x - vv.x, v.y - vv.y, v.z - vv.z))
{
    assert(d.x * v.x - dd.x * vv.x == (d.x - dd.x) * v.x + dd.x * (v.x - vv.x)) by(nonlinear_arith);
    assert(d.y * v.y - dd.y * vv.y == (d.y - dd.y) * v.y + dd.y * (v.y - vv.y)) by(nonlinear_arith);
    assert(d.z * v.z - dd.z * vv.z == (d.z - dd.z) * v.z + dd.z * (v.z - vv.z)) by(nonlinear_arith);
}
pub proof fn lemma_dot_abs(a: V3, b: V3)
    ensures absr(dot(a, b)) <= absr(a.x * b.x) + absr(a.y * b.y) + absr(a.z * b.z)
{}
// generic one-stage budget: out is the f32 row product of (d, v); (dd, vv) are the exact row and operand.
//   |out - dd.vv| <= 3.1u * sum|d_k|bv_k + 10eta + ed * sum bv_k + ev * sum|dd_k|      with |d - dd| <= ed, |v - vv| <= ev, |v_k| <= bv_k
pub proof fn lemma_stage(d: V3, dd: V3, v: V3, vv: V3, out: real, ed: real, ev: real, b0: real, b1: real, b2: real)
    requires absr(out - dot(d, v)) <= row_bound(d.x * v.x, d.y * v.y, d.z * v.z),
             absr(d.x - dd.x) <= ed, absr(d.y - dd.y) <= ed, absr(d.z - dd.z) <= ed,
             absr(v.x - vv.x) <= ev, absr(v.y - vv.y) <= ev, absr(v.z - vv.z) <= ev,
             absr(v.x) <= b0, absr(v.y) <= b1, absr(v.z) <= b2, ed >= 0real, ev >= 0real
    ensures absr(out - dot(dd, vv)) <= 0.00000006real * 3.1real * (absr(d.x) * b0 + absr(d.y) * b1 + absr(d.z) * b2) + 10real * 0.000000000000000000000000000000000000000000002real + ed * (b0 + b1 + b2) + ev * absum(dd)
{
    lemma_weighted(d, v, b0, b1, b2);
    let u31 = 0.00000006real * 3.1real;
    assert(u31 * (absr(d.x * v.x) + absr(d.y * v.y) + absr(d.z * v.z)) <= u31 * (absr(d.x) * b0 + absr(d.y) * b1 + absr(d.z) * b2)) by(nonlinear_arith)
        requires absr(d.x * v.x) + absr(d.y * v.y) + absr(d.z * v.z) <= absr(d.x) * b0 + absr(d.y) * b1 + absr(d.z) * b2, u31 >= 0real;
    lemma_dot_diff(d, dd, v, vv);
    let de = v3(d.x - dd.x, d.y - dd.y, d.z - dd.z); let dv = v3(v.x - vv.x, v.y - vv.y, v.z - vv.z);
    lemma_dot_abs(de, v); lemma_dot_abs(dd, dv);
    lemma_abs_mul(de.x, v.x, ed, b0); lemma_abs_mul(de.y, v.y, ed, b1); lemma_abs_mul(de.z, v.z, ed, b2);
    lemma_abs_mul(dd.x, dv.x, absr(dd.x), ev); lemma_abs_mul(dd.y, dv.y, absr(dd.y), ev); lemma_abs_mul(dd.z, dv.z, absr(dd.z), ev);
    assert(ed * b0 + ed * b1 + ed * b2 == ed * (b0 + b1 + b2)) by(nonlinear_arith);
    assert(absr(dd.x) * ev + absr(dd.y) * ev + absr(dd.z) * ev == ev * absum(dd)) by(nonlinear_arith);
    assert(0.00000006real * 3.1real * (absr(d.x * v.x) + absr(d.y * v.y) + absr(d.z * v.z)) == u31 * (absr(d.x * v.x) + absr(d.y * v.y) + absr(d.z * v.z)));
}
// ---- C01, ALL triples at once: f32 result vs the H.273 value D.V
// hypotheses = the Kani-proved component bounds (decode_*: entries within 4e-7; norm_*: normalised codes within 1.2e-7) + magnitudes
pub proof fn lemma_decode_budget(dd: V3, d: V3, vv: V3, v: V3, out: real)
    requires
        absr(dd.x) <= 2real, absr(dd.y) <= 2real, absr(dd.z) <= 2real, 0real <= vv.x <= 1real, absr(vv.y) <= 0.5real, absr(vv.z) <= 0.5real,
        absr(d.x - dd.x) <= 0.0000004real, absr(d.y - dd.y) <= 0.0000004real, absr(d.z - dd.z) <= 0.0000004real,
        absr(v.x - vv.x) <= 0.00000012real, absr(v.y - vv.y) <= 0.00000012real, absr(v.z - vv.z) <= 0.00000012real,
        absr(out - dot(d, v)) <= row_bound(d.x * v.x, d.y * v.y, d.z * v.z)        // the real mul_arr under the standard model
    ensures absr(out - dot(dd, vv)) <= 0.000003real
{
    lemma_stage(d, dd, v, vv, out, 0.0000004real, 0.00000012real, 1.00000012real, 0.50000012real, 0.50000012real);
    assert(absr(d.x) <= 2.0000004real && absr(d.y) <= 2.0000004real && absr(d.z) <= 2.0000004real);
    let sw = absr(d.x) * 1.00000012real + absr(d.y) * 0.50000012real + absr(d.z) * 0.50000012real;
    assert(sw <= 4.0000018real);
    assert(absum(dd) <= 6real);
    assert(0.00000006real * 3.1real * sw <= 0.00000075real);
    assert(0.0000004real * (1.00000012real + 0.50000012real + 0.50000012real) <= 0.00000081real);
    assert(0.00000012real * absum(dd) <= 0.00000072real);
}
// ---- C02, ALL RGB at once: y' = fwd.mul_arr(rgb) (f32) vs the exact H.273 value F.rgb, for every rgb in [-0.5, 1.5]^3:  <= 6e-7,
// so range*|y' - Y'| <= 6e-7*2^n, which together with Kani quant_* (0.5 + 4e-7*2^n for the f32 value fed) gives the property's 0.5 + 1e-6*2^n.
pub proof fn lemma_encode_budget(ff: V3, f: V3, rgb: V3, out: real)
    requires absr(rgb.x) <= 1.5real, absr(rgb.y) <= 1.5real, absr(rgb.z) <= 1.5real,
             absr(f.x - ff.x) <= 0.00000006real, absr(f.y - ff.y) <= 0.00000006real, absr(f.z - ff.z) <= 0.00000006real, absum(ff) <= 1real,
             absr(out - dot(f, rgb)) <= row_bound(f.x * rgb.x, f.y * rgb.y, f.z * rgb.z)
    ensures absr(out - dot(ff, rgb)) <= 0.0000006real
{
    lemma_stage(f, ff, rgb, rgb, out, 0.00000006real, 0real, 1.5real, 1.5real, 1.5real);
    assert(absr(f.x) + absr(f.y) + absr(f.z) <= 1.0000002real);
    assert(absr(f.x) * 1.5real + absr(f.y) * 1.5real + absr(f.z) * 1.5real <= 1.0000002real * 1.5real);
}
// ---- C06, ALL pixels at once: out = transform.mul_arr(v) (f32) vs the CIE reference row tt, for every pixel with |v_k| <= m:
//   |out - tt.v| <= 1e-5 * max(1, m),  given the Kani-proved entry bound 2e-6 (basis images) and row abs sums <= 5.5
pub proof fn lemma_primaries_budget(tt: V3, t: V3, v: V3, out: real, m: real)
    requires m >= 0real, absr(v.x) <= m, absr(v.y) <= m, absr(v.z) <= m,
             absr(t.x - tt.x) <= 0.000002real, absr(t.y - tt.y) <= 0.000002real, absr(t.z - tt.z) <= 0.000002real, absum(tt) <= 5.5real,
             absr(out - dot(t, v)) <= row_bound(t.x * v.x, t.y * v.y, t.z * v.z)
    ensures absr(out - dot(tt, v)) <= 0.00001real * (if m >= 1real { m } else { 1real })
{
    lemma_stage(t, tt, v, v, out, 0.000002real, 0real, m, m, m);
    let st = absr(t.x) + absr(t.y) + absr(t.z);
    assert(st <= 5.500006real);
    assert(absr(t.x) * m + absr(t.y) * m + absr(t.z) * m == st * m) by(nonlinear_arith) requires st == absr(t.x) + absr(t.y) + absr(t.z);
    lemma_mul_mono(st, 5.500006real, m);
    assert(0.000002real * (m + m + m) == 0.000006real * m);
    assert(0.00000006real * 3.1real * (5.500006real * m) <= 0.00000103real * m);
}
// ---- C08, ALL triples at once: x = inv.mul_arr(v) (f32), y = fwd.mul_arr(x) (f32); F, D exact with F.(D v) = v.  Then |y_j - v_j| <= 2.5e-6,
// which the quantiser absorbs (Kani rt_pert_*).  Magnitude hypotheses: sum_k |D_ik| w_k <= 2 with w = (1, .5, .5); sum_i |F_ji| <= 1.
pub proof fn lemma_roundtrip_budget(dd0: V3, dd1: V3, dd2: V3, d0: V3, d1: V3, d2: V3, ff: V3, f: V3, v: V3, x: V3, xx: V3, y: real, vj: real)
    requires
        0real <= v.x <= 1real, absr(v.y) <= 0.5real, absr(v.z) <= 0.5real,
        // exact decode rows, their f32 versions (Kani decode_*: 4e-7) and weighted magnitudes
        absr(d0.x - dd0.x) <= 0.0000004real, absr(d0.y - dd0.y) <= 0.0000004real, absr(d0.z - dd0.z) <= 0.0000004real,
        absr(d1.x - dd1.x) <= 0.0000004real, absr(d1.y - dd1.y) <= 0.0000004real, absr(d1.z - dd1.z) <= 0.0000004real,
        absr(d2.x - dd2.x) <= 0.0000004real, absr(d2.y - dd2.y) <= 0.0000004real, absr(d2.z - dd2.z) <= 0.0000004real,
        absr(dd0.x) + 0.5real * absr(dd0.y) + 0.5real * absr(dd0.z) <= 2real, absr(dd1.x) + 0.5real * absr(dd1.y) + 0.5real * absr(dd1.z) <= 2real,
        absr(dd2.x) + 0.5real * absr(dd2.y) + 0.5real * absr(dd2.z) <= 2real,
        // exact rgb and the f32 rgb produced by the real inv.mul_arr (standard model)
        xx.x == dot(dd0, v), xx.y == dot(dd1, v), xx.z == dot(dd2, v),
        absr(x.x - dot(d0, v)) <= row_bound(d0.x * v.x, d0.y * v.y, d0.z * v.z),
        absr(x.y - dot(d1, v)) <= row_bound(d1.x * v.x, d1.y * v.y, d1.z * v.z),
        absr(x.z - dot(d2, v)) <= row_bound(d2.x * v.x, d2.y * v.y, d2.z * v.z),
        // exact encode row j, its f32 version (Kani encode_*: 6e-8), |F_j| row sum <= 1, and F.(D v) = v (U-color: fwd*inv = I)
        absr(f.x - ff.x) <= 0.00000006real, absr(f.y - ff.y) <= 0.00000006real, absr(f.z - ff.z) <= 0.00000006real,
        absum(ff) <= 1real, dot(ff, xx) == vj,
        absr(y - dot(f, x)) <= row_bound(f.x * x.x, f.y * x.y, f.z * x.z)
    ensures absr(y - vj) <= 0.0000025real
{
    // stage 1: each f32 rgb component within 1.2e-6 of the exact one, and bounded by 2.0000013
    lemma_stage(d0, dd0, v, v, x.x, 0.0000004real, 0real, 1real, 0.5real, 0.5real);
    lemma_stage(d1, dd1, v, v, x.y, 0.0000004real, 0real, 1real, 0.5real, 0.5real);
    lemma_stage(d2, dd2, v, v, x.z, 0.0000004real, 0real, 1real, 0.5real, 0.5real);
    lemma_w(d0, dd0); lemma_w(d1, dd1); lemma_w(d2, dd2);
    let ex = 0.0000012real;
    assert(0.00000006real * 3.1real * 2.0000008real <= 0.00000038real);
    assert(0.0000004real * (1real + 0.5real + 0.5real) == 0.0000008real);
    assert(absr(x.x - xx.x) <= ex);
    assert(absr(x.y - xx.y) <= ex);
    assert(absr(x.z - xx.z) <= ex);
    lemma_weighted(dd0, v, 1real, 0.5real, 0.5real); lemma_weighted(dd1, v, 1real, 0.5real, 0.5real); lemma_weighted(dd2, v, 1real, 0.5real, 0.5real);
    lemma_dot_abs(dd0, v); lemma_dot_abs(dd1, v); lemma_dot_abs(dd2, v);
    assert(absr(xx.x) <= 2real && absr(xx.y) <= 2real && absr(xx.z) <= 2real);
    let bx = 2.0000012real;
    assert(absr(x.x) <= bx && absr(x.y) <= bx && absr(x.z) <= bx);
    // stage 2
    lemma_stage(f, ff, x, xx, y, 0.00000006real, ex, bx, bx, bx);
    let sf = absr(f.x) + absr(f.y) + absr(f.z);
    assert(sf <= 1.0000002real);
    assert(absr(f.x) * 2.0000012real + absr(f.y) * 2.0000012real + absr(f.z) * 2.0000012real <= 1.0000002real * 2.0000012real);
    assert(ex * absum(ff) <= ex) by(nonlinear_arith) requires absum(ff) <= 1real, absum(ff) >= 0real, ex == 0.0000012real;
    assert(0.00000006real * 3.1real * (1.0000002real * 2.0000012real) <= 0.00000038real);
    assert(0.00000006real * (bx + bx + bx) <= 0.00000037real);
}
// weighted magnitude of an f32 row from the exact row
pub proof fn lemma_w(d: V3, dd: V3)
    requires absr(d.x - dd.x) <= 0.0000004real, absr(d.y - dd.y) <= 0.0000004real, absr(d.z - dd.z) <= 0.0000004real,
             absr(dd.x) + 0.5real * absr(dd.y) + 0.5real * absr(dd.z) <= 2real
    ensures absr(d.x) * 1real + absr(d.y) * 0.5real + absr(d.z) * 0.5real <= 2.0000008real
{}
'''

CROSS_LEMMA = r'''
// cross component: o = fma(a1, a2, -(fl(b1*b2))): a = a1*a2, b = b1*b2 exact products, p = fl(b)
pub open spec fn cross_bound(a: real, b: real) -> real { 0.00000006real * 2.1real * (absr(a) + absr(b)) + 10real * 0.000000000000000000000000000000000000000000002real }
pub proof fn lemma_cross_error(a: real, b: real, p: real, o: real)
    requires rnd(b, p), fma_bound(a, -p, o)
    ensures absr(o - (a - b)) <= cross_bound(a, b)
{
    let u = 0.00000006real; let e = 0.000000000000000000000000000000000000000000002real;
    assert(absr(p) <= absr(b) + (u * absr(b) + e));
    assert(absr(-p) == absr(p));
    assert(u * absr(p) <= u * (absr(b) + (u * absr(b) + e))) by(nonlinear_arith) requires absr(p) <= absr(b) + (u * absr(b) + e), u == 0.00000006real;
    assert(u * (u * absr(b)) <= 0.0000001real * (u * absr(b))) by(nonlinear_arith) requires u == 0.00000006real, absr(b) >= 0real;
    assert(u * e <= e) by(nonlinear_arith) requires u == 0.00000006real, e >= 0real;
    assert(u * (absr(b) + (u * absr(b) + e)) == u * absr(b) + (u * (u * absr(b)) + u * e)) by(nonlinear_arith);
    assert(0.0000001real * (u * absr(b)) == u * (0.0000001real * absr(b))) by(nonlinear_arith);
    assert(u * (2.0000001real * absr(a) + absr(p)) == u * (2.0000001real * absr(a)) + u * absr(p)) by(nonlinear_arith);
    assert(u * 2.1real * (absr(a) + absr(b)) == u * (2.1real * absr(a)) + u * (2.1real * absr(b))) by(nonlinear_arith);
    assert(u * (2.0000001real * absr(a)) <= u * (2.1real * absr(a))) by(nonlinear_arith) requires u == 0.00000006real, absr(a) >= 0real;
    assert(u * absr(b) + u * absr(b) + u * (0.0000001real * absr(b)) <= u * (2.1real * absr(b))) by(nonlinear_arith) requires u == 0.00000006real, absr(b) >= 0real;
}
// C19: cross for entries in [-2,2] (|a|, |b| <= 4): within 1.1e-6 <= 1e-5*max(1,|exact|); component_mul / scalar_div are one rounding: relative 6e-8
pub proof fn lemma_c19_cross(a: real, b: real, o: real)
    requires absr(a) <= 4real, absr(b) <= 4real, absr(o - (a - b)) <= cross_bound(a, b)
    ensures absr(o - (a - b)) <= 0.0000011real
{}
pub proof fn lemma_c19_single(z: real, r: real)
    requires rnd(z, r)
    ensures absr(r - z) <= 0.00001real * (if absr(z) >= 1real { absr(z) } else { 1real })
{
    assert(0.00000006real * absr(z) <= 0.00001real * absr(z)) by(nonlinear_arith) requires absr(z) >= 0real;
}
'''

C19_LEMMA = r'''
// C19: for entries and operands in [-2,2] every product entry is within 1e-5*max(1,|exact|) of the exact value (in fact within 2.3e-6)
pub proof fn lemma_c19_products(a0: real, a1: real, a2: real, out: real)
    requires absr(a0) <= 4real, absr(a1) <= 4real, absr(a2) <= 4real, absr(out - (a0 + a1 + a2)) <= row_bound(a0, a1, a2)
    ensures absr(out - (a0 + a1 + a2)) <= 0.0000023real
{}
'''

def norm_body(txt):
    from rsx import split_fn
    _, body = split_fn(strip_attrs_and_docs(txt))
    body = re.sub(r'//[^\n]*', '', body)
    return re.sub(r'\s+', '', body)

# The rounding analysis below is a proof ABOUT A PARTICULAR EXPRESSION SHAPE (which operations round, in which order): it does not transfer
# to an algebraically equal rewrite (e.g. fast_mul_add -> a*b+c), which would fail the proof script although no property is broken (measured:
# benign edit B3). So each function is attached only if its body is still the shape analysed; otherwise the unit reports a lost anchor
# (it is registered as an OPTIONAL unit: the budget is then "not re-established", the exact algebra stays decided by U-matrix).
def skeleton(txt):
    """Operation skeleton of a fn body: comments and whitespace dropped, every identifier that is not a method/function name replaced by `v`,
    tuple-field and array indices by `i` - so renamed locals or fields keep the skeleton, while a changed operation (fused -> unfused, another order) does not."""
    nb = norm_body(txt)
    nb = re.sub(r'\b(?!fast_mul_add\b|new\b|Self\b|RowVector\b|ColVector\b|let\b|ref\b)[A-Za-z_][A-Za-z0-9_]*\b(?!\(|::)', 'v', nb)
    nb = re.sub(r'\.\d+', '.i', nb)
    return re.sub(r'\[\d+\]', '[i]', nb)
SHAPES = {'component_mul': '{Self(v.i*v.i,v.i*v.i,v.i*v.i)}',
 'cross': '{letSelf(v,v,v)=*v;letSelf(v,v,v)=*v;Self::new(v.fast_mul_add(v,-(v*v)),v.fast_mul_add(v,-(v*v)),v.fast_mul_add(v,-(v*v)),)}',
 'dot': '{v.i.fast_mul_add(v.i,v.i.fast_mul_add(v.i,v.i*v.i))}',
 'mul_arr': '{letSelf(v,v,v)=*v;[v.i.fast_mul_add(v[i],v.i.fast_mul_add(v[i],v.i*v[i])),v.i.fast_mul_add(v[i],v.i.fast_mul_add(v[i],v.i*v[i])),v.i.fast_mul_add(v[i],v.i.fast_mul_add(v[i],v.i*v[i])),]}',
 'mul_mat': '{letSelf(v,v,v)=*v;letSelf(v,v,v)=v;Self::new(RowVector::new(v.i.fast_mul_add(v.i,v.i.fast_mul_add(v.i,v.i*v.i)),v.i.fast_mul_add(v.i,v.i.fast_mul_add(v.i,v.i*v.i)),v.i.fast_mul_add(v.i,v.i.fast_mul_add(v.i,v.i*v.i)),),RowVector::new(v.i.fast_mul_add(v.i,v.i.fast_mul_add(v.i,v.i*v.i)),v.i.fast_mul_add(v.i,v.i.fast_mul_add(v.i,v.i*v.i)),v.i.fast_mul_add(v.i,v.i.fast_mul_add(v.i,v.i*v.i)),),RowVector::new(v.i.fast_mul_add(v.i,v.i.fast_mul_add(v.i,v.i*v.i)),v.i.fast_mul_add(v.i,v.i.fast_mul_add(v.i,v.i*v.i)),v.i.fast_mul_add(v.i,v.i.fast_mul_add(v.i,v.i*v.i)),),)}',
 'mul_vec': '{letSelf(v,v,v)=*v;ColVector::new(v.i.fast_mul_add(v.i,v.i.fast_mul_add(v.i,v.i*v.i)),v.i.fast_mul_add(v.i,v.i.fast_mul_add(v.i,v.i*v.i)),v.i.fast_mul_add(v.i,v.i.fast_mul_add(v.i,v.i*v.i)),)}',
 'scalar_div': '{Self(v.i/v,v.i/v,v.i/v)}'}
def guard(name, txt):
    if skeleton(txt) != SHAPES[name]:
        raise AnchorLost(f'{name}: operation skeleton differs from the one whose rounding was analysed')

def build(repo):
    g = Gen('u_round')
    g.add(preamble.read('rounded.rs'))
    src = RustSrc(os.path.join(repo, REL))
    # struct declarations (fields made pub) and the generic impl block's where clause, verbatim
    for ty in ('RowVector', 'ColVector', 'Matrix'):
        st = strip_attrs_and_docs(src.get(src.find('struct', ty)))
        st = st.replace('(T, T, T)', '(pub T, pub T, pub T)').replace('(RowVector<T>, RowVector<T>, RowVector<T>)', '(pub RowVector<T>, pub RowVector<T>, pub RowVector<T>)')
        g.add(st)
    # the three constructors (needed by mul_vec / mul_mat), verbatim with their trivial contracts
    for ty, ens, rn in (('RowVector', 'r == RowVector(x, y, z)', 'r'), ('ColVector', 'ret == ColVector(r, g, b)', 'ret'), ('Matrix', 'r == Matrix(r1, r2, r3)', 'r')):
        imc = src.find_impl(r'impl<T: Copy> %s<T>$' % ty)
        spn = src.find('fn', 'new', within=(imc[2], imc[3]), keep_attrs=True)
        g.add(f'impl<T: Copy> {ty}<T> {{\n' + apply_contract(src.get(spn), C(ensures=[ens], rname=rn), g.dropped) + '\n}\n')
    g.add(SPEC)
    im = src.find_impl(r'impl<T> Matrix<T> where')
    hdr = ' '.join(src.text[im[0]:im[2] - 1].split())
    if 'Neg<Output = T>,' not in hdr: raise AnchorLost('matrix.rs: generic where clause changed')
    hdr = hdr.replace('Neg<Output = T>,', 'Neg<Output = T> + Rounded,')
    hdr = hdr.replace('Div<T, Output = T>', 'std::ops::Div<T, Output = T>').replace('Neg<Output', 'std::ops::Neg<Output')
    sp = src.find('fn', 'mul_arr', within=(im[2], im[3]), keep_attrs=True)
    guard('mul_arr', src.get(sp))
    c = C(requires=[],
          ensures=['row_err(self.0, rhs, r[0])', 'row_err(self.1, rhs, r[1])', 'row_err(self.2, rhs, r[2])'],
          head='''        proof {
            T::ax();
            let v = rhs;
            let ro = self.0; let m2 = ro.2.mul_spec(v[2]); let s1 = ro.1.fma_spec(v[1], m2); let o = ro.0.fma_spec(v[0], s1);
            lemma_row_error(ro.0.val() * v[0].val(), ro.1.val() * v[1].val(), ro.2.val() * v[2].val(), m2.val(), s1.val(), o.val());
            let ro = self.1; let m2 = ro.2.mul_spec(v[2]); let s1 = ro.1.fma_spec(v[1], m2); let o = ro.0.fma_spec(v[0], s1);
            lemma_row_error(ro.0.val() * v[0].val(), ro.1.val() * v[1].val(), ro.2.val() * v[2].val(), m2.val(), s1.val(), o.val());
            let ro = self.2; let m2 = ro.2.mul_spec(v[2]); let s1 = ro.1.fma_spec(v[1], m2); let o = ro.0.fma_spec(v[0], s1);
            lemma_row_error(ro.0.val() * v[0].val(), ro.1.val() * v[1].val(), ro.2.val() * v[2].val(), m2.val(), s1.val(), o.val());
        }''',
          inserts=[('[', 'before', '')] if False else [])
    txt = src.get(sp)
    g.under_contract.append({'fn': 'Matrix::mul_arr (T: Rounded)', 'src': f'{REL}:{src.line_of(sp[0])}', 'requires': c.requires, 'ensures': c.ensures})
    g.add(hdr + ' {\n' + apply_contract(txt, c, g.dropped) + '\n}\n')
    # ---- C19 products under the standard model: mul_vec, mul_mat (same expression shape as mul_arr) and RowVector::dot
    def row_proof(ro, a, b, c):
        return (f'let m2 = {ro}.2.mul_spec({c}); let s1 = {ro}.1.fma_spec({b}, m2); let o = {ro}.0.fma_spec({a}, s1); '
                f'lemma_row_error({ro}.0.val() * {a}.val(), {ro}.1.val() * {b}.val(), {ro}.2.val() * {c}.val(), m2.val(), s1.val(), o.val());')
    def rerr(ro, a, b, c, out):
        return (f'absr({out}.val() - ({ro}.0.val() * {a}.val() + {ro}.1.val() * {b}.val() + {ro}.2.val() * {c}.val())) '
                f'<= row_bound({ro}.0.val() * {a}.val(), {ro}.1.val() * {b}.val(), {ro}.2.val() * {c}.val())')
    sp = src.find('fn', 'mul_vec', within=(im[2], im[3]), keep_attrs=True)
    guard('mul_vec', src.get(sp))
    cv = C(ensures=[rerr(f'self.{i}', 'rhs.0', 'rhs.1', 'rhs.2', f'r.{i}') for i in range(3)],
           head='        proof { T::ax(); ' + ' '.join(row_proof(f'self.{i}', 'rhs.0', 'rhs.1', 'rhs.2') for i in range(3)) + ' }')
    g.under_contract.append({'fn': 'Matrix::mul_vec (T: Rounded)', 'src': f'{REL}:{src.line_of(sp[0])}', 'requires': [], 'ensures': cv.ensures})
    mv = apply_contract(src.get(sp), cv, g.dropped)
    sp = src.find('fn', 'mul_mat', within=(im[2], im[3]), keep_attrs=True)
    guard('mul_mat', src.get(sp))
    cm = C(ensures=[rerr(f'self.{i}', f'rhs.0.{j}', f'rhs.1.{j}', f'rhs.2.{j}', f'r.{i}.{j}') for i in range(3) for j in range(3)],
           head='        proof { T::ax(); ' + ' '.join(row_proof(f'self.{i}', f'rhs.0.{j}', f'rhs.1.{j}', f'rhs.2.{j}') for i in range(3) for j in range(3)) + ' }')
    g.under_contract.append({'fn': 'Matrix::mul_mat (T: Rounded)', 'src': f'{REL}:{src.line_of(sp[0])}', 'requires': [], 'ensures': ['9 entries: row_bound of the three exact products']})
    mm = apply_contract(src.get(sp), cm, g.dropped)
    g.add(hdr + ' {\n' + mv + '\n' + mm + '\n}\n')
    imr = src.find_impl(r'impl<T> RowVector<T> where')
    hdr_r = ' '.join(src.text[imr[0]:imr[2] - 1].split()).replace('Neg<Output = T>,', 'Neg<Output = T> + Rounded,').replace('Div<T, Output = T>', 'std::ops::Div<T, Output = T>').replace('Neg<Output', 'std::ops::Neg<Output')
    sp = src.find('fn', 'dot', within=(imr[2], imr[3]), keep_attrs=True)
    guard('dot', src.get(sp))
    cd = C(ensures=[rerr('self', 'other.0', 'other.1', 'other.2', 'r')],
           head='        proof { T::ax(); ' + row_proof('self', 'other.0', 'other.1', 'other.2') + ' }')
    g.under_contract.append({'fn': 'RowVector::dot (T: Rounded)', 'src': f'{REL}:{src.line_of(sp[0])}', 'requires': [], 'ensures': cd.ensures})
    # ---- C19 single-operation functions under the standard model: cross (fma of a rounded, negated product), component_mul, scalar_div
    def cr(out, a1, a2, b1, b2):
        return f'absr({out}.val() - ({a1}.val() * {a2}.val() - {b1}.val() * {b2}.val())) <= cross_bound({a1}.val() * {a2}.val(), {b1}.val() * {b2}.val())'
    def cr_proof(a1, a2, b1, b2):
        return (f'let p = {b1}.mul_spec({b2}); let q = p.neg_spec(); let o = {a1}.fma_spec({a2}, q); '
                f'lemma_cross_error({a1}.val() * {a2}.val(), {b1}.val() * {b2}.val(), p.val(), o.val());')
    sp = src.find('fn', 'cross', within=(imr[2], imr[3]), keep_attrs=True)
    guard('cross', src.get(sp))
    cc = C(ensures=[cr('r.0', 'self.1', 'other.2', 'self.2', 'other.1'), cr('r.1', 'self.2', 'other.0', 'self.0', 'other.2'), cr('r.2', 'self.0', 'other.1', 'self.1', 'other.0')],
           head='        proof { T::ax(); ' + cr_proof('self.1', 'other.2', 'self.2', 'other.1') + ' ' + cr_proof('self.2', 'other.0', 'self.0', 'other.2') + ' ' + cr_proof('self.0', 'other.1', 'self.1', 'other.0') + ' }')
    g.under_contract.append({'fn': 'RowVector::cross (T: Rounded)', 'src': f'{REL}:{src.line_of(sp[0])}', 'requires': [], 'ensures': cc.ensures})
    parts = [apply_contract(src.get(sp), cd, g.dropped) for sp, cd in ((src.find('fn', 'dot', within=(imr[2], imr[3]), keep_attrs=True), cd), (sp, cc))]
    sp = src.find('fn', 'component_mul', within=(imr[2], imr[3]), keep_attrs=True)
    guard('component_mul', src.get(sp))
    ccm = C(ensures=[f'rnd(self.{i}.val() * other.{i}.val(), r.{i}.val())' for i in range(3)], head='        proof { T::ax(); }')
    g.under_contract.append({'fn': 'RowVector::component_mul (T: Rounded)', 'src': f'{REL}:{src.line_of(sp[0])}', 'requires': [], 'ensures': ccm.ensures})
    parts.append(apply_contract(src.get(sp), ccm, g.dropped))
    sp = src.find('fn', 'scalar_div', within=(imr[2], imr[3]), keep_attrs=True)
    guard('scalar_div', src.get(sp))
    csd = C(ensures=[f'x.val() != 0real ==> rnd(self.{i}.val() / x.val(), r.{i}.val())' for i in range(3)], head='        proof { T::ax(); }')
    g.under_contract.append({'fn': 'RowVector::scalar_div (T: Rounded)', 'src': f'{REL}:{src.line_of(sp[0])}', 'requires': [], 'ensures': csd.ensures})
    parts.append(apply_contract(src.get(sp), csd, g.dropped))
    g.add(CROSS_LEMMA)
    g.add(hdr_r + ' {\n' + '\n'.join(parts) + '\n}\n')
    g.add(C19_LEMMA)
    g.dropped.append('U-round: only `struct RowVector/Matrix` and `Matrix::mul_arr` are extracted from matrix.rs; `+ Rounded` appended to the generic where-clause')
    g.assumed.append('SM: standard model of binary32 arithmetic (each rounding has relative error <= 2^-24 plus 2^-149 absolute; no overflow at these magnitudes); both the fused and the unfused fast_mul_add satisfy fma_bound (proved: lemma_fused_fma / lemma_unfused_fma)')
    return g
