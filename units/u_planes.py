"""U-planes (E1): Yuv::new + accessors + metadata heuristics (src/yuv.rs) and the two plane loops
(src/yuv_rgb.rs), verified for unbounded geometry against assumed v_frame accessor contracts.
Floats stay the opaque type f32; scalar float kernels are stubs whose only assumed contract is determinism.

Mechanical rewrites (recorded in `dropped`):
  R-unchecked  `*s.get_unchecked(i)` -> get_unchecked_(s, i);  `*s.get_unchecked_mut(i) = v` -> set_unchecked_(s, i, v)
               (the stubs' precondition is the std safety contract i < len: proving it = absence of UB)
  R-logwarn    `log::warn!(..)` statements removed (no effect on results)
  R-anycut     the iterator expression `data.planes.iter().any(|plane| plane.iter().any(..))` cut to a stub
  R-arrslice   `Yuv::data()` returns `&[Plane<T>; 3]` instead of the unsized `&[Plane<T>]`
  R-pub        struct fields made pub
"""
import re, os, glob
from rsx import RustSrc, AnchorLost, _mask
from vgen import C, Gen, apply_contract, strip_attrs_and_docs, mirror
import preamble
from u_color import av_enums

def vframe_src(repo):
    lock = open(os.path.join(repo, 'Cargo.lock')).read() if os.path.exists(os.path.join(repo, 'Cargo.lock')) else open('/repo/Cargo.lock').read()
    m = re.search(r'name = "v_frame"\nversion = "([^"]+)"', lock)
    if not m: raise AnchorLost('v_frame not in Cargo.lock')
    c = glob.glob(os.path.expanduser(f'~/.cargo/registry/src/*/v_frame-{m.group(1)}/src/plane.rs'))
    if not c: raise AnchorLost('v_frame source not in registry')
    return RustSrc(c[0]), m.group(1)

def pubfields(txt):
    return re.sub(r'(?m)^(\s+)(?!pub )(\w+): ', r'\1pub \2: ', txt)

SPEC = r'''
// =====================================================================================================
// specification side (from the property statements C07 / C11 / C12 / C15)
// =====================================================================================================
// every sample addressed through cfg lies inside the buffer
pub open spec fn plane_ok<T>(p: Plane<T>) -> bool {
    p.cfg.xorigin + p.cfg.width <= p.cfg.stride
    && p.cfg.yorigin + p.cfg.height <= usize::MAX
    && (p.cfg.yorigin + p.cfg.height) * p.cfg.stride <= p.data.v@.len()
    && origin(p.cfg) <= p.data.v@.len()
    && p.data.v@.len() <= usize::MAX
}
pub open spec fn pow2(s: int) -> int { vstd::arithmetic::power2::pow2(s as nat) as int }
pub open spec fn dec_ok<T>(d: Frame<T>, c: YuvConfig) -> bool {
    c.subsampling_x == d.planes[1].cfg.xdec as u8 && c.subsampling_x == d.planes[2].cfg.xdec as u8
    && c.subsampling_y == d.planes[1].cfg.ydec as u8 && c.subsampling_y == d.planes[2].cfg.ydec as u8
}
pub open spec fn chroma_size_ok<T>(d: Frame<T>, c: YuvConfig) -> bool {
    let cw = d.planes[0].cfg.width as int / pow2(c.subsampling_x as int);
    let ch = d.planes[0].cfg.height as int / pow2(c.subsampling_y as int);
    d.planes[1].cfg.width == cw && d.planes[2].cfg.width == cw && d.planes[1].cfg.height == ch && d.planes[2].cfg.height == ch
}
pub open spec fn planes_fit<T>(d: Frame<T>) -> bool { plane_ok(d.planes[0]) && plane_ok(d.planes[1]) && plane_ok(d.planes[2]) }
// a visible sample of plane p exceeds max
pub open spec fn plane_exceeds<T: Pixel>(p: Plane<T>, max: int) -> bool {
    exists|x: int, y: int| 0 <= x < p.cfg.width && 0 <= y < p.cfg.height
        && (#[trigger] p.data.v@[origin(p.cfg) + y * p.cfg.stride + x]).code() > max
}
pub open spec fn frame_exceeds<T: Pixel>(d: Frame<T>, max: int) -> bool {
    plane_exceeds(d.planes[0], max) || plane_exceeds(d.planes[1], max) || plane_exceeds(d.planes[2], max)
}
pub open spec fn range_checked<T>(c: YuvConfig) -> bool { core::mem::size_of::<T>() == 2 && c.bit_depth < 16 }
// C12: the constructor accepts exactly the well-formed frames
pub open spec fn accept<T: Pixel>(d: Frame<T>, c: YuvConfig) -> bool {
    dec_ok(d, c)
    && d.planes[0].cfg.width as int % pow2(c.subsampling_x as int) == 0
    && d.planes[0].cfg.height as int % pow2(c.subsampling_y as int) == 0
    && chroma_size_ok(d, c) && planes_fit(d)
    && !(range_checked::<T>(c) && frame_exceeds(d, pow2(c.bit_depth as int) - 1))
}
pub open spec fn reject_reason<T: Pixel>(d: Frame<T>, c: YuvConfig) -> YuvError {
    if !dec_ok(d, c) { YuvError::SubsamplingMismatch }
    else if d.planes[0].cfg.width as int % pow2(c.subsampling_x as int) != 0 { YuvError::InvalidLumaWidth }
    else if d.planes[0].cfg.height as int % pow2(c.subsampling_y as int) != 0 { YuvError::InvalidLumaHeight }
    else if !chroma_size_ok(d, c) { YuvError::SubsamplingMismatch }
    else { YuvError::InvalidData }
}
// C07: what the unchecked loops rely on
pub open spec fn yuv_wf<T: Pixel>(y: Yuv<T>) -> bool {
    let d = y.data; let c = y.config;
    c.subsampling_x < 64 && c.subsampling_y < 64
    && d.planes[0].cfg.width as int % pow2(c.subsampling_x as int) == 0
    && d.planes[0].cfg.height as int % pow2(c.subsampling_y as int) == 0
    && chroma_size_ok(d, c) && planes_fit(d)
}
// ---- C15: the documented mpv heuristic, transcribed from the property statement
pub open spec fn guess_matrix_spec(w: int, h: int) -> MatrixCoefficients {
    if w >= 1280 || h > 576 { MatrixCoefficients::BT709 } else if h == 576 { MatrixCoefficients::BT470BG } else { MatrixCoefficients::ST170M }
}
pub open spec fn guess_primaries_spec(m: MatrixCoefficients, w: int, h: int) -> ColorPrimaries {
    if m == MatrixCoefficients::BT2020NonConstantLuminance || m == MatrixCoefficients::BT2020ConstantLuminance { ColorPrimaries::BT2020 }
    else if m == MatrixCoefficients::BT709 || w >= 1280 || h > 576 { ColorPrimaries::BT709 }
    else if h == 576 { ColorPrimaries::BT470BG }
    else if h == 480 || h == 488 { ColorPrimaries::ST170M }
    else { ColorPrimaries::BT709 }
}
pub open spec fn fix_spec(c: YuvConfig, w: int, h: int) -> YuvConfig {
    let m = if c.matrix_coefficients == MatrixCoefficients::Unspecified { guess_matrix_spec(w, h) } else { c.matrix_coefficients };
    let p = if c.color_primaries == ColorPrimaries::Unspecified { guess_primaries_spec(m, w, h) } else { c.color_primaries };
    let t = if c.transfer_characteristics == TransferCharacteristic::Unspecified { TransferCharacteristic::BT1886 } else { c.transfer_characteristics };
    YuvConfig { bit_depth: c.bit_depth, subsampling_x: c.subsampling_x, subsampling_y: c.subsampling_y, full_range: c.full_range,
                matrix_coefficients: m, transfer_characteristics: t, color_primaries: p }
}
// ---- scalar float kernels: uninterpreted, deterministic (the only thing E1 assumes about them)
pub uninterp spec fn s_scale_offset(to_float: bool, bd: u8, full: bool, chroma: bool) -> (f32, f32);
pub uninterp spec fn s_to_f32_luma<T>(v: T, s: f32, o: f32) -> f32;
pub uninterp spec fn s_to_f32_chroma<T>(v: T, s: f32, o: f32) -> f32;
pub uninterp spec fn s_from_f32_luma<T>(v: f32, s: f32, o: f32, bd: u8) -> T;
pub uninterp spec fn s_from_f32_chroma<T>(v: f32, s: f32, o: f32, bd: u8, full: bool) -> T;
#[verifier::external_body]
fn get_scale_offset<const TO_FLOAT: bool>(bit_depth: u8, full_range: bool, chroma: bool) -> (r: (f32, f32))
    ensures r == s_scale_offset(TO_FLOAT, bit_depth, full_range, chroma) { unimplemented!() }
#[verifier::external_body]
fn to_f32_luma<T: Pixel>(val: T, scale: f32, offset: f32) -> (r: f32) ensures r == s_to_f32_luma(val, scale, offset) { unimplemented!() }
#[verifier::external_body]
fn to_f32_chroma<T: Pixel>(val: T, scale: f32, offset: f32) -> (r: f32) ensures r == s_to_f32_chroma(val, scale, offset) { unimplemented!() }
#[verifier::external_body]
fn from_f32_luma<T: Pixel>(val: f32, scale: f32, offset: f32, bd: u8) -> (r: T)
    ensures r == s_from_f32_luma::<T>(val, scale, offset, bd),
            // proved bit-precisely for every f32 by the Kani harnesses codes_valid_* (C13)
            8 <= bd <= 16 ==> 0 <= r.code() <= pow2(bd as int) - 1 { unimplemented!() }
#[verifier::external_body]
fn from_f32_chroma<T: Pixel>(val: f32, scale: f32, offset: f32, bd: u8, full_range: bool) -> (r: T)
    ensures r == s_from_f32_chroma::<T>(val, scale, offset, bd, full_range),
            8 <= bd <= 16 ==> 0 <= r.code() <= pow2(bd as int) - 1 { unimplemented!() }
// R-anycut: stands for  data.planes.iter().any(|plane| plane.iter().any(|pix| pix.to_u16().expect(..) > max_value))
// (Plane::iter visits exactly the visible samples; it indexes with bounds checks, so it needs planes_fit to not panic;
//  PlaneIter::next computes `width - 1`, so a plane with width 0 and height > 0 underflows/panics: excluded by nondegenerate)
pub open spec fn nondegenerate<T>(d: Frame<T>) -> bool {
    (d.planes[0].cfg.width > 0 || d.planes[0].cfg.height == 0) && (d.planes[1].cfg.width > 0 || d.planes[1].cfg.height == 0)
    && (d.planes[2].cfg.width > 0 || d.planes[2].cfg.height == 0)
}
#[verifier::external_body]
fn any_sample_exceeds<T: Pixel>(data: &Frame<T>, max_value: u16) -> (r: bool)
    requires planes_fit(*data), nondegenerate(*data)
    ensures r == frame_exceeds(*data, max_value as int) { unimplemented!() }

// =====================================================================================================
// index arithmetic lemmas
// =====================================================================================================
pub proof fn lemma_cell(y: int, h: int, w: int, x: int)
    by(nonlinear_arith)
    requires 0 <= y < h, 0 <= x < w
    ensures 0 <= y * w + x < h * w, y * w + x < (y + 1) * w, (y + 1) * w <= h * w
{}
pub proof fn lemma_cell_lt(yy: int, y: int, w: int, xx: int, x: int)
    by(nonlinear_arith)
    requires 0 <= yy < y, 0 <= xx < w, 0 <= x
    ensures yy * w + xx < y * w + x
{}
pub proof fn lemma_mul_le(a: int, b: int, s: int)
    by(nonlinear_arith)
    requires 0 <= a <= b, 0 <= s
    ensures a * s <= b * s
{}
// inside the buffer: origin + y*stride + x < len  for a visible sample (y < height, x < width) of a plane_ok plane
pub proof fn lemma_sample_in_bounds<T>(p: Plane<T>, y: int, x: int)
    requires plane_ok(p), 0 <= y < p.cfg.height, 0 <= x < p.cfg.width
    ensures 0 <= y * p.cfg.stride + x, origin(p.cfg) + y * p.cfg.stride + x < p.data.v@.len(),
{
    let c = p.cfg; let s = c.stride as int;
    lemma_mul_le(c.yorigin + y + 1, c.yorigin + c.height, s);
    assert((c.yorigin + y + 1) * s == c.yorigin * s + y * s + s) by(nonlinear_arith);
    assert(0 <= y * s) by(nonlinear_arith) requires 0 <= y, 0 <= s;
}
pub proof fn lemma_shr_is_div(v: usize, s: u8)
    requires s < 64
    ensures (v >> s) as int == v as int / pow2(s as int), pow2(s as int) > 0
{
    vstd::bits::lemma_u64_shr_is_div(v as u64, s as u64);
    vstd::arithmetic::power2::lemma_pow2_pos(s as nat);
    assert((v >> s) == ((v as u64) >> (s as u64)) as usize) by(bit_vector) requires s < 64;
}
pub proof fn lemma_shl_is_pow2(s: u8)
    requires s < 64
    ensures (1usize << s) as int == pow2(s as int), pow2(s as int) > 0
{
    vstd::arithmetic::power2::lemma_pow2_pos(s as nat);
    vstd::bits::lemma_u64_pow2_no_overflow(s as nat);
    vstd::bits::lemma_u64_shl_is_mul(1u64, s as u64);
    assert((1usize << s) == ((1u64) << (s as u64)) as usize) by(bit_vector) requires s < 64;
}
// subsampled coordinate stays inside the chroma plane: y < h, h % 2^s == 0  =>  y / 2^s < h / 2^s
pub proof fn lemma_sub_lt(y: int, h: int, d: int)
    requires 0 <= y < h, d > 0, h % d == 0
    ensures 0 <= y / d < h / d
{
    vstd::arithmetic::div_mod::lemma_fundamental_div_mod(h, d);
    vstd::arithmetic::div_mod::lemma_fundamental_div_mod(y, d);
    vstd::arithmetic::div_mod::lemma_div_pos_is_pos(y, d);
    let q = h / d; let k = y / d;
    if k >= q {
        lemma_mul_le(q, k, d);
        assert(d * k == k * d) by(nonlinear_arith);
        assert(d * q == q * d) by(nonlinear_arith);
        vstd::arithmetic::div_mod::lemma_mod_bound(y, d);
    }
}
'''

VFRAME_SPEC = r'''
// what v_frame's PlaneConfig::new establishes (proved on the extracted source below)
pub open spec fn cfg_post(c: PlaneConfig, width: usize, height: usize, xdec: usize, ydec: usize, xpad: usize, ypad: usize) -> bool {
    c.width == width && c.height == height && c.xdec == xdec && c.ydec == ydec && c.xpad == xpad && c.ypad == ypad
    && c.yorigin == ypad && c.alloc_height == ypad + height + ypad
    && xpad <= c.xorigin < xpad + 64 && (xpad == 0 ==> c.xorigin == 0)
    && c.xorigin + width + xpad <= c.stride < c.xorigin + width + xpad + 64 && (c.xorigin + width + xpad == 0 ==> c.stride == 0)
}
pub open spec fn pow2_(s: int) -> int { vstd::arithmetic::power2::pow2(s as nat) as int }
pub proof fn lemma_floor_bits(x: usize, n: usize)
    requires n < 64
    ensures (x & !(((1usize << n) - 1) as usize)) <= x, x - (x & !(((1usize << n) - 1) as usize)) < (1usize << n), (x & !(((1usize << n) - 1) as usize)) % (1usize << n) == 0, (1usize << n) >= 1
{
    assert((x & !(((1usize << n) - 1) as usize)) <= x) by(bit_vector) requires n < 64;
    assert(x - (x & !(((1usize << n) - 1) as usize)) < (1usize << n)) by(bit_vector) requires n < 64;
    assert((x & !(((1usize << n) - 1) as usize)) % (1usize << n) == 0) by(bit_vector) requires n < 64;
    assert((1usize << n) >= 1) by(bit_vector) requires n < 64;
}
pub proof fn lemma_shl_pow2_usize(n: usize)
    requires n < 64
    ensures (1usize << n) as int == pow2_(n as int), pow2_(n as int) > 0
{
    vstd::arithmetic::power2::lemma_pow2_pos(n as nat);
    vstd::bits::lemma_u64_pow2_no_overflow(n as nat);
    vstd::bits::lemma_u64_shl_is_mul(1u64, n as u64);
    assert((1usize << n) == ((1u64) << (n as u64)) as usize) by(bit_vector) requires n < 64;
}
pub proof fn lemma_aligned_small_is_zero(r: int, d: int)
    requires 0 <= r < d, r % d == 0
    ensures r == 0
{ vstd::arithmetic::div_mod::lemma_small_mod(r as nat, d as nat); }
'''

def add_planeconfig(repo, g, vsrc):
    """Extract v_frame's `Fixed` (floor_log2 / ceil_log2 / align_power_of_two for usize) and `PlaneConfig::new` and verify them."""
    import glob
    msrc = RustSrc(vsrc.path.replace('plane.rs', 'math.rs'))
    im = msrc.find_impl(r'^impl Fixed for usize$')
    body = msrc.text[im[2]:im[3]]
    bsrc = RustSrc(msrc.path, body)
    fl = strip_attrs_and_docs(bsrc.get(bsrc.find('fn', 'floor_log2')))
    ce = strip_attrs_and_docs(bsrc.get(bsrc.find('fn', 'ceil_log2')))
    al = strip_attrs_and_docs(bsrc.get(bsrc.find('fn', 'align_power_of_two')))
    # R-deref: `self` (a `&usize`) used as an operand -> `(*self)`
    fl = fl.replace('self & !', '(*self) & !'); ce = ce.replace('(self + ', '((*self) + ')
    if '(*self)' not in fl or '(*self)' not in ce: raise AnchorLost('v_frame math.rs: Fixed for usize changed shape')
    ALIGN = 'requires n < 64, self.v() + pow2_(n as int) <= usize::MAX, ensures r >= self.v(), r - self.v() < pow2_(n as int), r as int % pow2_(n as int) == 0'
    g.add(f'''pub trait Fixed {{
    spec fn v(&self) -> int;
    fn floor_log2(&self, n: usize) -> (r: usize) requires n < 64, ensures r <= self.v(), self.v() - r < pow2_(n as int), r as int % pow2_(n as int) == 0;
    fn ceil_log2(&self, n: usize) -> (r: usize) {ALIGN};
    fn align_power_of_two(&self, n: usize) -> (r: usize) {ALIGN};
}}
impl Fixed for usize {{
    open spec fn v(&self) -> int {{ *self as int }}
''')
    def hd(t, proof):
        from rsx import split_fn
        h, b = split_fn(t)
        from rsx import name_return
        return name_return(h) + '{\n        proof { ' + proof + ' }' + b[1:]
    g.add(hd(fl, 'lemma_floor_bits(*self, n); lemma_shl_pow2_usize(n);'))
    g.add(hd(ce, 'lemma_shl_pow2_usize(n); lemma_floor_bits(((*self) + (1usize << n) - 1) as usize, n);'))
    g.add(hd(al, ''))
    g.add('}\n')
    im = vsrc.find_impl(r'^impl PlaneConfig$')
    pbody = vsrc.text[im[2]:im[3]]
    psrc = RustSrc(vsrc.path, pbody)
    const = strip_attrs_and_docs(psrc.get(psrc.find('const', 'STRIDE_ALIGNMENT_LOG2')))
    newfn = psrc.get(psrc.find('fn', 'new', keep_attrs=True))
    c = C(requires=['type_size == 1 || type_size == 2', 'xpad + 64 + width + xpad + 64 <= usize::MAX', 'ypad + height + ypad <= usize::MAX'],
          ensures=['cfg_post(r, width, height, xdec, ydec, xpad, ypad)'],
          head='        proof { vstd::arithmetic::power2::lemma2_to64(); }',
          inserts=[('PlaneConfig {', 'before', '''        proof {
            vstd::arithmetic::power2::lemma2_to64();
            if xpad == 0 { lemma_aligned_small_is_zero(xorigin as int, pow2_((6 + 1 - type_size) as int)); }
            if xorigin + width + xpad == 0 { lemma_aligned_small_is_zero(stride as int, pow2_((6 + 1 - type_size) as int)); }
        }''')])
    g.under_contract.append({'fn': 'v_frame::PlaneConfig::new', 'src': 'v_frame/src/plane.rs', 'requires': c.requires, 'ensures': c.ensures})
    g.under_contract.append({'fn': 'v_frame::math::Fixed for usize (floor_log2, ceil_log2, align_power_of_two)', 'src': 'v_frame/src/math.rs', 'requires': ['n < 64, no overflow'], 'ensures': ['aligned, >= self, < self + 2^n']})
    g.add('impl PlaneConfig {\n    ' + const + '\n' + apply_contract(newfn, c, g.dropped) + '\n}\n')
    g.dropped.append('v_frame: `impl Fixed for usize` (3 methods) and `PlaneConfig::new` extracted from the registry source and verified; R-deref: `self & ..` / `self + ..` on `&usize` -> `(*self)`')

def contracts():
    t = {}
    t['Yuv::new'] = C(
        requires=['config.subsampling_x < 64', 'config.subsampling_y < 64', '8 <= config.bit_depth <= 16',
                  # v_frame's PlaneIter panics on planes of width 0 and height > 0 (only reached by the 16-bit sample range check)
                  'range_checked::<T>(config) ==> nondegenerate(data)'],
        ensures=[
            # C12: accepts exactly the well-formed frames, documented error otherwise
            'accept(data, config) <==> r is Ok',
            'r is Err ==> r->Err_0 == reject_reason(data, config)',
            # verbatim storage + C15 resolution
            'r is Ok ==> r->Ok_0.data == data && r->Ok_0.config == fix_spec(config, data.planes[0].cfg.width as int, data.planes[0].cfg.height as int)',
            # C07: what the unchecked plane loops rely on
            'r is Ok ==> yuv_wf(r->Ok_0)'],
        head='''        proof {
            lemma_shl_is_pow2(config.subsampling_x); lemma_shl_is_pow2(config.subsampling_y);
            lemma_shr_is_div(data.planes[0].cfg.width, config.subsampling_x); lemma_shr_is_div(data.planes[0].cfg.height, config.subsampling_y);
            lemma_maxval(config.bit_depth);
        }''')
    t['plane_in_bounds'] = C(ensures=['r == plane_ok(*plane)'],
        head='''        proof { let c = plane.cfg;
            assert(0 <= (c.yorigin + c.height) * c.stride) by(nonlinear_arith) requires 0 <= c.yorigin + c.height, 0 <= c.stride;
            assert(0 <= c.yorigin * c.stride) by(nonlinear_arith) requires 0 <= c.yorigin, 0 <= c.stride; }''')
    t['Yuv::data'] = C(ensures=['*r == self.data.planes'], strip_const=True)
    t['Yuv::width'] = C(ensures=['r == self.data.planes[0].cfg.width'], strip_const=True)
    t['Yuv::height'] = C(ensures=['r == self.data.planes[0].cfg.height'], strip_const=True)
    t['Yuv::config'] = C(ensures=['r == self.config'], strip_const=True)
    t['fix_unspecified_data'] = C(ensures=['r == fix_spec(self, width as int, height as int)',
        # C15: never Unspecified
        'r.matrix_coefficients != MatrixCoefficients::Unspecified && r.color_primaries != ColorPrimaries::Unspecified '
        '&& r.transfer_characteristics != TransferCharacteristic::Unspecified'])
    return t

MAXVAL = r'''
pub proof fn lemma_maxval(bd: u8)
    requires 8 <= bd <= 16
    ensures bd < 16 ==> (u16::MAX >> ((16 - bd) as u8)) as int == pow2(bd as int) - 1
{
    reveal(vstd::arithmetic::power2::pow2);
    vstd::arithmetic::power2::lemma2_to64();
    assert(bd == 8 ==> 0xffffu16 >> 8u8 == 255u16) by(bit_vector);
    assert(bd == 9 ==> 0xffffu16 >> 7u8 == 511u16) by(bit_vector);
    assert(bd == 10 ==> 0xffffu16 >> 6u8 == 1023u16) by(bit_vector);
    assert(bd == 11 ==> 0xffffu16 >> 5u8 == 2047u16) by(bit_vector);
    assert(bd == 12 ==> 0xffffu16 >> 4u8 == 4095u16) by(bit_vector);
    assert(bd == 13 ==> 0xffffu16 >> 3u8 == 8191u16) by(bit_vector);
    assert(bd == 14 ==> 0xffffu16 >> 2u8 == 16383u16) by(bit_vector);
    assert(bd == 15 ==> 0xffffu16 >> 1u8 == 32767u16) by(bit_vector);
}
'''

def build(repo, stage='all'):
    g = Gen('u_planes')
    enums, ver = av_enums(repo)
    g.add('global size_of usize == 8;   // assumption: 64-bit target\n')
    g.add(enums); g.add('use av_data::pixel::{ColorPrimaries, MatrixCoefficients, TransferCharacteristic};\n')
    vsrc, vver = vframe_src(repo)
    g.add('#[derive(Clone, Copy)]\n' + strip_attrs_and_docs(vsrc.get(vsrc.find('struct', 'PlaneConfig'))))
    g.dropped.append(f'v_frame {vver}: `struct PlaneConfig` copied mechanically from the registry source; Plane/PlaneData/Frame are stand-ins with assumed accessor contracts')
    g.add(VFRAME_SPEC)
    add_planeconfig(repo, g, vsrc)
    g.add(preamble.read('vframe_stubs.rs'))
    ysrc = RustSrc(os.path.join(repo, 'src/yuv.rs'))
    g.add('#[derive(Clone, Copy, PartialEq, Eq)]\n' + strip_attrs_and_docs(ysrc.get(ysrc.find('struct', 'YuvConfig'))))
    g.add('#[derive(Clone, Copy, PartialEq, Eq, Debug)]\n' + strip_attrs_and_docs(ysrc.get(ysrc.find('enum', 'YuvError'))))
    ystruct = pubfields(strip_attrs_and_docs(ysrc.get(ysrc.find('struct', 'Yuv'))))
    g.add(ystruct); g.dropped.append('R-pub: fields of Yuv made pub (visibility only)')
    g.add(SPEC); g.add(MAXVAL)
    table = contracts()
    def ctr(key, src, span, rel):
        c = table[key]
        g.under_contract.append({'fn': key, 'src': f'{rel}:{src.line_of(span[0])}', 'requires': c.requires, 'ensures': c.ensures})
        return c
    # ---- impl<T: Pixel> Yuv<T>
    im = ysrc.find_impl(r'^impl<T: Pixel> Yuv<T>$')
    parts = []
    for fn in ('new', 'data', 'width', 'height', 'config'):
        sp = ysrc.find('fn', fn, within=(im[2], im[3]), keep_attrs=True)
        txt = ysrc.get(sp)
        c = ctr(f'Yuv::{fn}', ysrc, sp, 'src/yuv.rs')
        if fn == 'new':
            # R-anycut
            mk = _mask(txt)
            m0 = re.search(r'data\s*\.planes\s*\.iter\(\)\s*\.any\(', mk)
            if not m0: raise AnchorLost('Yuv::new: the sample range check changed shape')
            depth, k = 1, m0.end()
            while k < len(mk) and depth:
                depth += (mk[k] == '(') - (mk[k] == ')'); k += 1
            cut = txt[m0.start():k]
            if 'pix.to_u16()' not in cut or '> max_value' not in cut or cut.count('.any(') != 2:
                raise AnchorLost('Yuv::new: the sample range predicate changed')
            txt = txt[:m0.start()] + 'any_sample_exceeds(&data, max_value)' + txt[k:]
            g.dropped.append('R-anycut: Yuv::new `data.planes.iter().any(|plane| plane.iter().any(|pix| pix.to_u16().expect(..) > max_value))` -> stub any_sample_exceeds (assumed: true iff a visible sample exceeds max_value)')
        if fn == 'data':
            txt, n = re.subn(r'-> &\[Plane<T>\]', '-> &[Plane<T>; 3]', txt)
            if n != 1: raise AnchorLost('Yuv::data signature changed')
            g.dropped.append('R-arrslice: Yuv::data() returns &[Plane<T>; 3] (no unsized coercion in Verus)')
        parts.append(apply_contract(txt, c, g.dropped))
    g.add('impl<T: Pixel> Yuv<T> {\n' + '\n'.join(parts) + '\n}\n')
    # ---- impl YuvConfig { fix_unspecified_data }
    im = ysrc.find_impl(r'^impl YuvConfig$')
    sp = ysrc.find('fn', 'fix_unspecified_data', within=(im[2], im[3]), keep_attrs=True)
    txt = ysrc.get(sp)
    txt, n = re.subn(r'log::warn!\((?:[^()]|\([^()]*\))*\);', '', txt)
    if n != 3: raise AnchorLost('fix_unspecified_data: log::warn! sites changed')
    txt = txt.replace('pub(crate) fn', 'pub fn')
    # R-mutself: Verus has no `mut self`; bind it to a local instead
    from rsx import split_fn
    hdr, body = split_fn(txt)
    hdr, n = re.subn(r'\(mut self,', '(self,', hdr)
    if n != 1: raise AnchorLost('fix_unspecified_data signature changed')
    body = '{\n        let mut this = self;' + re.sub(r'\bself\b', 'this', body[1:])
    txt = hdr + body
    g.dropped.append('R-mutself: `mut self` parameter of fix_unspecified_data bound to a local `this`')
    g.dropped.append('R-logwarn: 3 `log::warn!(..)` statements removed from fix_unspecified_data')
    g.add('impl YuvConfig {\n' + apply_contract(txt, ctr('fix_unspecified_data', ysrc, sp, 'src/yuv.rs'), g.dropped) + '\n}\n')
    # R-mirror: the two guess_* helpers are transparent (generated contract r == <own body as spec>); the heuristic of the
    # property statement (guess_matrix_spec / guess_primaries_spec) is demanded of fix_unspecified_data, their only caller
    for fn in ('guess_matrix_coefficients', 'guess_color_primaries'):
        sp = ysrc.find('fn', fn, keep_attrs=True)
        spec_txt, exec_txt = mirror(ysrc.get(sp), fn, g.dropped)
        g.add(spec_txt); g.add(exec_txt)
        g.under_contract.append({'fn': fn, 'src': f'src/yuv.rs:{ysrc.line_of(sp[0])}', 'requires': [], 'ensures': [f'r == {fn}__spec(..)  (generated mirror of the body; the statement heuristic is demanded of fix_unspecified_data)']})
    # plane_in_bounds exists only after the F2 fix; if it is gone, Yuv::new cannot establish yuv_wf and fails (a violation, not a lost anchor)
    try:
        sp = ysrc.find('fn', 'plane_in_bounds', keep_attrs=True)
        g.add(apply_contract(ysrc.get(sp), ctr('plane_in_bounds', ysrc, sp, 'src/yuv.rs'), g.dropped))
    except AnchorLost:
        pass
    if stage != 'ctor':
        import u_planes_loops
        u_planes_loops.add(repo, g)
    g.assumed += ['v_frame accessor contracts (Plane::data_origin, data_origin_mut, PlaneData::len, Plane::iter via any_sample_exceeds) transcribed from their bodies',
                  'scalar float kernels are deterministic functions (uninterpreted); from_f32_* emit codes <= 2^n-1 (proved by Kani codes_valid_*)',
                  '<[T]>::get_unchecked(_mut): safety contract is index < len',
                  'shift amounts subsampling_x, subsampling_y < 64 (larger: debug builds panic on the overflow check, release builds mask; not modelled)',
                  'Pixel has exactly the implementors u8 and u16 (sample value = Pixel::code)']
    return g
