"""U-curves (E2): the 20 scalar transfer-curve functions and their constants (src/yuv_rgb/transfer.rs) under exact-real
semantics, with powf / expf / log10 / ln / sqrt as IDEAL uninterpreted functions.  Decides: every curve is the piecewise
formula of its standard, with the standard's constants (C03 'shape' clause).  Does not decide the accuracy of the fast
powf/expf against the ideal functions.

Rewrites: R-f32 (token + literals), R-constfn, R-range (`(a..=b).contains(&x)` -> `a <= x && x <= b`), f32::EPSILON -> Fx::lit.
"""
import re, os
from rsx import RustSrc, AnchorLost
from vgen import C, Gen, apply_contract, strip_attrs_and_docs
import preamble

REL = 'src/yuv_rgb/transfer.rs'
CONSTS = ['REC709_ALPHA', 'REC709_BETA', 'SRGB_ALPHA', 'SRGB_BETA', 'ST2084_M1', 'ST2084_M2', 'ST2084_C1', 'ST2084_C2', 'ST2084_C3',
          'ST2084_OOTF_SCALE', 'ARIB_B67_A', 'ARIB_B67_B', 'ARIB_B67_C']

SPEC = r'''
#[verifier::external_body] fn powf(x: Fx, y: Fx) -> (r: Fx) ensures r.val() == s_pow(x.val(), y.val()) { unimplemented!() }
#[verifier::external_body] fn expf(x: Fx) -> (r: Fx) ensures r.val() == s_exp(x.val()) { unimplemented!() }
pub open spec fn absr(x: real) -> real { if x < 0real { -x } else { x } }
pub open spec fn maxr(a: real, b: real) -> real { if a >= b { a } else { b } }
// ---- the standards' constants (oracle side)
// ITU-R BT.709 / BT.2020 OETF: alpha = 1.09929682680944, beta = 0.018053968510807
// IEC 61966-2-1 sRGB: 1.055 / 0.0031308 (the code uses constants adjusted for C1 continuity: within 1e-3 / 1e-4)
// SMPTE ST 2084: m1 = 2610/16384, m2 = 2523/32, c1 = 3424/4096, c2 = 2413/128, c3 = 2392/128
// ARIB STD-B67: a = 0.17883277, b = 0.28466892, c = 0.55991073
pub proof fn lemma_constants_are_standard()
    ensures
        absr(s_REC709_ALPHA() - 1.09929682680944real) <= 0.0000001real, absr(s_REC709_BETA() - 0.018053968510807real) <= 0.00000001real,
        absr(s_SRGB_ALPHA() - 1.055real) <= 0.001real, absr(s_SRGB_BETA() - 0.0031308real) <= 0.0001real,
        absr(s_ST2084_M1() - 2610real / 16384real) <= 0.00000001real, s_ST2084_M2() == 2523real / 32real,
        s_ST2084_C1() == 3424real / 4096real, absr(s_ST2084_C2() - 2413real / 128real) <= 0.000001real, s_ST2084_C3() == 2392real / 128real,
        absr(s_ARIB_B67_A() - 0.17883277real) <= 0.00000001real, absr(s_ARIB_B67_B() - 0.28466892real) <= 0.00000001real,
        absr(s_ARIB_B67_C() - 0.55991073real) <= 0.0000001real,
{}
// ---- the curves' defining formulas over the ideal functions and the code's named constants
pub open spec fn f_709_oetf(x: real) -> real { let x = maxr(x, 0real);
    if x < s_REC709_BETA() { x * 4.5real } else { s_REC709_ALPHA() * s_pow(x, 0.45real) + (0real - (s_REC709_ALPHA() - 1real)) } }
pub open spec fn f_709_inv(x: real) -> real { let x = maxr(x, 0real);
    if x < 4.5real * s_REC709_BETA() { x / 4.5real } else { s_pow((x + (s_REC709_ALPHA() - 1real)) / s_REC709_ALPHA(), 1real / 0.45real) } }
pub open spec fn f_gamma(x: real, g: real) -> real { if x < 0real { 0real } else { s_pow(x, g) } }
pub open spec fn f_srgb_eotf(x: real) -> real { let x = maxr(x, 0real);
    if x < 12.92real * s_SRGB_BETA() { x / 12.92real } else { s_pow((x + (s_SRGB_ALPHA() - 1real)) / s_SRGB_ALPHA(), 2.4real) } }
pub open spec fn f_srgb_inv(x: real) -> real { let x = maxr(x, 0real);
    if x < s_SRGB_BETA() { x * 12.92real } else { s_SRGB_ALPHA() * s_pow(x, 1real / 2.4real) + (0real - (s_SRGB_ALPHA() - 1real)) } }
pub open spec fn f_pq_inv_eotf(x: real) -> real {
    if x > 0real { let xp = s_pow(x, s_ST2084_M1());
        s_pow(1real + ((s_ST2084_C2() - s_ST2084_C3()) * xp + (s_ST2084_C1() - 1real)) / (s_ST2084_C3() * xp + 1real), s_ST2084_M2()) } else { 0real } }
pub open spec fn f_pq_eotf(x: real) -> real {
    if x > 0real { let xp = s_pow(x, 1real / s_ST2084_M2());
        s_pow(maxr(xp - s_ST2084_C1(), 0real) / maxr(s_ST2084_C3() * (0real - xp) + s_ST2084_C2(), 0.00000011920929real), 1real / s_ST2084_M1()) } else { 0real } }
pub open spec fn f_hlg_inv(x: real) -> real { let x = maxr(x, 0real);
    if x <= 0.5real { (x * x) * (1real / 3real) } else { (s_exp((x - s_ARIB_B67_C()) / s_ARIB_B67_A()) + s_ARIB_B67_B()) / 12real } }
// C10 (exact, unbounded, for the pure power-law curves): with an IDEAL power function the gamma->linear->gamma
// composition is the identity on [0, inf).  Hypotheses about s_pow are explicit.
pub open spec fn ideal_pow() -> bool {
    (forall|x: real, a: real, b: real| x >= 0real ==> #[trigger] s_pow(s_pow(x, a), b) == s_pow(x, a * b))
    && (forall|x: real| x >= 0real ==> #[trigger] s_pow(x, 1real) == x)
    && (forall|x: real, a: real| x >= 0real ==> #[trigger] s_pow(x, a) >= 0real)
}
pub proof fn lemma_gamma_round_trip(x: real)
    requires ideal_pow(), x >= 0real
    ensures f_gamma(f_gamma(x, 2.4real), 1real / 2.4real) == x, f_gamma(f_gamma(x, 2.2real), 1real / 2.2real) == x, f_gamma(f_gamma(x, 2.8real), 1real / 2.8real) == x,
            f_gamma(f_gamma(x, 1real / 2.4real), 2.4real) == x, f_gamma(f_gamma(x, 1real / 2.2real), 2.2real) == x, f_gamma(f_gamma(x, 1real / 2.8real), 2.8real) == x,
{
    assert(2.4real * (1real / 2.4real) == 1real); assert(2.2real * (1real / 2.2real) == 1real); assert(2.8real * (1real / 2.8real) == 1real);
    assert((1real / 2.4real) * 2.4real == 1real); assert((1real / 2.2real) * 2.2real == 1real); assert((1real / 2.8real) * 2.8real == 1real);
    assert(s_pow(s_pow(x, 2.4real), 1real / 2.4real) == s_pow(x, 2.4real * (1real / 2.4real)));
    assert(s_pow(s_pow(x, 2.2real), 1real / 2.2real) == s_pow(x, 2.2real * (1real / 2.2real)));
    assert(s_pow(s_pow(x, 2.8real), 1real / 2.8real) == s_pow(x, 2.8real * (1real / 2.8real)));
    assert(s_pow(s_pow(x, 1real / 2.4real), 2.4real) == s_pow(x, (1real / 2.4real) * 2.4real));
    assert(s_pow(s_pow(x, 1real / 2.2real), 2.2real) == s_pow(x, (1real / 2.2real) * 2.2real));
    assert(s_pow(s_pow(x, 1real / 2.8real), 2.8real) == s_pow(x, (1real / 2.8real) * 2.8real));
}
pub open spec fn f_hlg_oetf(x: real) -> real { let x = maxr(x, 0real);
    if x <= 1real / 12real { s_sqrt(3real * x) } else { s_ARIB_B67_A() * s_ln(12real * x + (0real - s_ARIB_B67_B())) + s_ARIB_B67_C() } }
'''

def contracts():
    t = {}
    # log curves: the cut-off literals are inline in the code; the contract brackets the standard's value
    #   Log100: 0.01;  Log316: sqrt(10)/1000 = 0.00316227766...
    t['log100_oetf'] = C(ensures=['x.val() <= 0.00999999real ==> r.val() == 0real', 'x.val() >= 0.01000001real ==> r.val() == 1real + s_log10(x.val()) / 2real'])
    t['log100_inverse_oetf'] = C(ensures=['x.val() <= 0real ==> absr(r.val() - 0.01real) <= 0.000000001real', 'x.val() > 0real ==> r.val() == s_pow(10real, 2real * (x.val() - 1real))'])
    t['log316_oetf'] = C(ensures=['x.val() <= 0.0031622real ==> r.val() == 0real', 'x.val() >= 0.0031623real ==> r.val() == 1real + s_log10(x.val()) / 2.5real'])
    t['log316_inverse_oetf'] = C(ensures=['x.val() <= 0real ==> absr(r.val() - 0.00316227766real) <= 0.000000001real', 'x.val() > 0real ==> r.val() == s_pow(10real, 2.5real * (x.val() - 1real))'])
    t['rec_1886_eotf'] = C(ensures=['r.val() == f_gamma(x.val(), 2.4real)'])
    t['rec_1886_inverse_eotf'] = C(ensures=['r.val() == f_gamma(x.val(), 1real / 2.4real)'])
    t['rec_470m_oetf'] = C(ensures=['r.val() == f_gamma(x.val(), 2.2real)'])
    t['rec_470m_inverse_oetf'] = C(ensures=['r.val() == f_gamma(x.val(), 1real / 2.2real)'])
    t['rec_470bg_oetf'] = C(ensures=['r.val() == f_gamma(x.val(), 2.8real)'])
    t['rec_470bg_inverse_oetf'] = C(ensures=['r.val() == f_gamma(x.val(), 1real / 2.8real)'])
    t['rec_709_oetf'] = C(ensures=['r.val() == f_709_oetf(x.val())'])
    t['rec_709_inverse_oetf'] = C(ensures=['r.val() == f_709_inv(x.val())'])
    # xvYCC: BT.1886 inside [0,1], the (odd extension of the) BT.709 curve outside.  copysign makes the magnitude explicit:
    # |pow(..)| equals pow(..) for the ideal (non-negative) power function.
    t['xvycc_eotf'] = C(ensures=['0real <= x.val() <= 1real ==> r.val() == absr(f_gamma(x.val(), 2.4real))',
                                 'x.val() > 1real ==> r.val() == absr(f_709_inv(x.val()))', 'x.val() < 0real ==> r.val() == 0real - absr(f_709_inv(0real - x.val()))'])
    t['xvycc_inverse_eotf'] = C(ensures=['0real <= x.val() <= 1real ==> r.val() == absr(f_gamma(x.val(), 1real / 2.4real))',
                                         'x.val() > 1real ==> r.val() == absr(f_709_oetf(x.val()))', 'x.val() < 0real ==> r.val() == 0real - absr(f_709_oetf(0real - x.val()))'])
    t['srgb_eotf'] = C(ensures=['r.val() == f_srgb_eotf(x.val())'])
    t['srgb_inverse_eotf'] = C(ensures=['r.val() == f_srgb_inv(x.val())'])
    t['st_2084_inverse_eotf'] = C(ensures=['r.val() == f_pq_inv_eotf(x.val())'])
    t['st_2084_eotf'] = C(ensures=['r.val() == f_pq_eotf(x.val())'])
    # scene-referred PQ (BT.2100): OOTF = BT.1886 EOTF of the BT.709 OETF of 59.49... * E, scaled by 100
    t['ootf_st2084'] = C(ensures=['r.val() == f_gamma(f_709_oetf(x.val() * s_ST2084_OOTF_SCALE()), 2.4real) / 100real'])
    t['inverse_ootf_st2084'] = C(ensures=['r.val() == f_709_inv(f_gamma(x.val() * 100real, 1real / 2.4real)) / s_ST2084_OOTF_SCALE()'])
    t['st_2084_inverse_oetf'] = C(ensures=['r.val() == f_709_inv(f_gamma(f_pq_eotf(x.val()) * 100real, 1real / 2.4real)) / s_ST2084_OOTF_SCALE()'])
    t['st_2084_oetf'] = C(ensures=['r.val() == f_pq_inv_eotf(f_gamma(f_709_oetf(x.val() * s_ST2084_OOTF_SCALE()), 2.4real) / 100real)'])
    t['arib_b67_inverse_oetf'] = C(ensures=['r.val() == f_hlg_inv(x.val())'])
    t['arib_b67_oetf'] = C(ensures=['r.val() == f_hlg_oetf(x.val())'])
    return t

def dec_lit(m):
    n, d = int(m.group(1)), int(m.group(2)); k = len(str(d)) - 1
    sn = str(n).rjust(k + 1, '0')
    return f'{sn[:-k] if k else sn}.{sn[-k:] if k else "0"}real'

def build(repo):
    g = Gen('u_curves')
    g.add(preamble.read('exact.rs')); g.add(preamble.fx('Fx', 'f32'))
    src = RustSrc(os.path.join(repo, REL))
    # every top-level f32 constant of the file is extracted: the 13 the curve formulas name (CONSTS, required) and any other one
    # a refactoring may have introduced (seed I: REC709_LINEAR_END), each as an exec fn with its literal-exact value as generated spec
    found = re.findall(r'(?m)^const (\w+): f32 =', src.text if hasattr(src, 'text') else open(os.path.join(repo, REL)).read())
    ALLC = list(CONSTS) + [n for n in found if n not in CONSTS]
    def fxify(t):
        t = t.replace('f32::EPSILON', '0.00000011920929f32')      # 2^-23, the value of f32::EPSILON
        t = re.sub(r'\(0\.0\.\.=1\.0\)\.contains\(&(\w+)\)', r'(0.0 <= \1 && \1 <= 1.0)', t)
        if '.contains(' in t: raise AnchorLost('unknown range test in a curve function')
        t = re.sub(r'\bf32\b', 'Fx', t)
        for n in ALLC:
            t = re.sub(r'\b%s\b(?!\s*[:(])' % n, n + '()', t)
        return preamble.lit_rewrite(t)
    for n in ALLC:
        txt = src.get(src.find('const', n))
        m = re.match(r'const (\w+): f32 = (.*);\s*$', txt, re.S)
        if not m: raise AnchorLost(f'const {n} changed shape')
        body = fxify(m.group(2))
        spec = re.sub(r'Fx::lit\((\d+), (\d+)\)', dec_lit, body)
        spec = re.sub(r'\b(%s)\(\)' % '|'.join(ALLC), r's_\1()', spec)     # a constant defined from another constant
        g.add(f'pub open spec fn s_{n}() -> real {{ {spec} }}\nfn {n}() -> (r: Fx) ensures r.val() == s_{n}() {{ {body} }}\n')
        g.under_contract.append({'fn': f'const {n}', 'src': f'{REL}:{src.line_of(src.find("const", n)[0])}', 'requires': [], 'ensures': ['value of the literal read exactly']})
    g.add(SPEC)
    for name, c in contracts().items():
        sp = src.find('fn', name, keep_attrs=True)
        txt = fxify(src.get(sp))
        g.under_contract.append({'fn': name, 'src': f'{REL}:{src.line_of(sp[0])}', 'requires': [], 'ensures': c.ensures})
        g.add(apply_contract(txt, c, g.dropped))
    g.dropped += ['R-f32 / R-constfn on transfer.rs (13 constants, 24 scalar functions)', 'R-range: `(0.0..=1.0).contains(&x)` -> `0.0 <= x && x <= 1.0`; `f32::EPSILON` -> its value 2^-23']
    g.assumed.append('powf, expf, log10, ln, sqrt are IDEAL uninterpreted functions in U-curves (accuracy of the fast approximations is not decided)')
    return g
