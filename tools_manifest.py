#!/usr/bin/env python3
"""Regenerate MANIFEST.json from lib/props.py (single source of truth)."""
import json, os, sys
HERE = os.path.dirname(os.path.abspath(__file__))
sys.path.insert(0, os.path.join(HERE, 'lib')); sys.path.insert(0, os.path.join(HERE, 'units'))
import props
checks = []
for pid in sorted(props.PROPS):
    P = props.PROPS[pid]
    checks.append({
        'property_id': pid,
        'quick_cmd': f'./check {pid} --tier quick',
        'thorough_cmd': f'./check {pid} --tier thorough',
        'evidence_file': f'/verif/evidence/{pid}.json',
        'replay_cmd_template': 'cat {path}',
        'engine': 'check',
        'level_claimed': {'category': P['level'], 'text': P['text'], 'design_ref': P.get('design_ref', 'DESIGN.md §5')},
        'level_note': P['note'],
        'technique': P['technique'],
    })
m = {
    'version': 1,
    'setup_cmd': './setup.sh',
    'hooks': {'guard': 'kani (cfg set by cargo-kani itself, scratch copy only; /repo carries no hook)',
              'enable': 'checks rsync /repo to /var/tmp/yuvxyb-verif/<id>.<pid>, append `#[cfg(kani)] #[path=..] mod verif_kani_*;` lines and run cargo kani there; Verus units are extracted from /repo on every run',
              'baseline_off_cmd': 'cd /repo && cargo test --workspace --no-fail-fast --offline',
              'source_commits': [], 'add_only': True},
    'engines': [{'name': 'check', 'path': '/verif/check', 'serves_properties': sorted(props.PROPS),
                 'kind_free_text': 'python driver: mechanical extraction of real functions + injected contracts -> Verus (unbounded, exact/structural) and Kani/CBMC (bit-precise kernels, function contracts)'}],
    'checks': checks,
    'not_applicable': [{'property_id': k, 'reason': v} for k, v in sorted(props.NOT_APPLICABLE.items())],
    'notes': 'One technique family: contract-based deductive verification of the real code. See DESIGN.md.',
}
json.dump(m, open(os.path.join(HERE, 'MANIFEST.json'), 'w'), indent=1)
print('MANIFEST.json written:', len(checks), 'checks')
