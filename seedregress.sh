#!/bin/bash
# Re-applies every stored seeded change to /repo (one at a time, always restoring), runs the check of the property it breaks (quick tier)
# and records whether it is still reported.  Usage: ./seedregress.sh [seed names...]   (default: all).  NEVER run concurrently with other checks.
cd /verif
OUT=/verif/seeded/REGRESSION.txt
names="$@"; [ -z "$names" ] && names=$(ls seeded | grep -v REGRESSION)
: > $OUT.tmp
for n in $names; do
  [ -f seeded/$n/meta.json ] || continue
  c=$(python3 -c "import json;print(json.load(open('/verif/seeded/$n/meta.json'))['property'])")
  git -C /repo diff --quiet || { echo "/repo dirty, abort"; exit 3; }
  git -C /repo apply /verif/seeded/$n/patch.diff || { echo "$n: patch does not apply" | tee -a $OUT.tmp; continue; }
  ./check $c > /var/tmp/regress_$n.txt 2>&1; rc=$?
  git -C /repo checkout -- .
  v=$(grep -c "^VIOLATION property=$c" /var/tmp/regress_$n.txt)
  first=$(grep -m1 "failed:" /var/tmp/regress_$n.txt | cut -c1-150)
  echo "$n $c rc=$rc violations=$v $first" | tee -a $OUT.tmp
  rm -f /var/tmp/regress_$n.txt
done
mv $OUT.tmp $OUT
git -C /repo status --short | head -3
