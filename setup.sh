#!/bin/sh
# Offline setup: nothing to build (python3 driver; Verus/Kani pre-installed). Warm nothing, verify tools exist.
set -e
cd "$(dirname "$0")"
command -v verus >/dev/null
command -v cargo-kani >/dev/null
mkdir -p evidence replay /var/tmp/yuvxyb-verif
python3 tools_manifest.py >/dev/null
echo setup ok
