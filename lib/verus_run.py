"""Run one generated Verus unit, classify every function verdict, run the vacuity canary."""
import json, os, re, subprocess, time
from rsx import _mask

VERUS = 'verus'

class UnitResult:
    def __init__(self):
        self.name = ''
        self.status = 'ok'          # ok | failed | undecided
        self.reason = ''
        self.functions = []         # [{'fn','mode','ok','rlimit','ms'}]
        self.failed = []            # [{'fn','messages':[...]}]
        self.stderr = ''
        self.wall = 0.0
        self.smt_ms = 0
        self.canary = {}            # {'checked': n, 'failed_as_required': n, 'vacuous': [fn...]}
        self.trusted = []           # scan results
        self.path = ''
        self.cmd = ''

ERR_KINDS = ('postcondition not satisfied', 'precondition not satisfied', 'assertion failed',
             'invariant not satisfied', 'possible arithmetic underflow/overflow',
             'possible division by zero', 'loop invariant', 'decreases not satisfied',
             'possible bit shift underflow/overflow', 'recommendation not met',
             'index out of bounds', 'unreachable')

def _run(path, rlimit, timeout, extra=()):
    cmd = ['timeout', str(timeout), VERUS, path, '--output-json', '--time', '--rlimit', str(rlimit), '--multiple-errors', '4'] + list(extra)
    t0 = time.time()
    p = subprocess.run(cmd, capture_output=True, text=True, cwd=os.path.dirname(path))
    return p, time.time() - t0, ' '.join(cmd)

def _fn_line_index(text):
    """line -> name of the enclosing fn item in the generated file (best effort, by last `fn name` above)."""
    idx = []
    cur = None
    for ln in text.split('\n'):
        m = re.search(r'\bfn\s+([A-Za-z_0-9]+)', ln)
        if m and not ln.lstrip().startswith('//'):
            cur = m.group(1)
        idx.append(cur)
    return idx

def _parse_errors(stderr, text):
    """Split rustc-style diagnostics; attach each to a function of the generated file."""
    idx = _fn_line_index(text)
    blocks = re.split(r'\n(?=error)', '\n' + stderr)
    out = []
    for b in blocks:
        b = b.strip('\n')
        if not b.startswith('error'): continue
        head = b.split('\n', 1)[0]
        m = re.search(r'-->\s+\S+?:(\d+):\d+', b)
        fn = None
        if m:
            ln = int(m.group(1))
            if 0 < ln <= len(idx): fn = idx[ln - 1]
        out.append({'head': head, 'fn': fn, 'text': b[:3000]})
    return out

def scan_trusted(text):
    res = []
    for pat, what in ((r'external_body', 'external_body'), (r'\badmit\(\)', 'admit'), (r'\bassume\(', 'assume'),
                      (r'assume_specification', 'assume_specification'), (r'\buninterp\b', 'uninterpreted spec fn'),
                      (r'external_type_specification', 'external_type_specification'),
                      (r'#\[verifier::external\]', 'verifier::external')):
        n = len(re.findall(pat, text))
        if n: res.append(f'{what} x{n}')
    return res

def make_canary(text):
    """Vacuity canary.  For every non-spec fn that has a body and a requires/ensures clause, wrap the
    body as `{ let r_canary = { body }; assert(false); r_canary }`.  The assertion sits at the end of
    the fall-through path, after every call to an assumed (external_body) contract, and does not
    change any callee's contract, so callers are not poisoned.  Each such function must then FAIL;
    one that still verifies has a contradictory precondition or reaches a contradictory assumption.
    Functions proved wholesale by(nonlinear_arith) are skipped (an `assert(false)` there can hang Z3)."""
    mask = _mask(text)
    out, pos, names = [], 0, []
    for m in re.finditer(r'\bfn\s+([A-Za-z_0-9]+)', mask):
        if m.start() < pos: continue
        k, par = m.end(), 0
        while k < len(mask):
            ch = mask[k]
            if ch in '([': par += 1
            elif ch in ')]': par -= 1
            elif ch in '{;' and par == 0: break
            k += 1
        if k >= len(mask) or mask[k] == ';': continue
        header = mask[m.start():k]
        pre = mask[max(0, m.start() - 40):m.start()]
        if re.search(r'\bspec\s+(\(checked\)\s+)?$', pre): continue
        if 'nonlinear_arith' in header: continue
        if m.group(1) == 'clone': continue   # derived Clone impls share the name and carry no contract
        if not re.search(r'\b(ensures|requires)\b', header): continue
        if 'external_body' in text[max(0, m.start() - 200):m.start()].split('}')[-1]: continue
        # matching close brace
        depth, j = 0, k
        while j < len(mask):
            if mask[j] == '{': depth += 1
            elif mask[j] == '}':
                depth -= 1
                if depth == 0: break
            j += 1
        out.append(text[pos:k + 1]); out.append(' let r_canary = {'); out.append(text[k + 1:j])
        out.append('}; assert(false); r_canary }'); pos = j + 1
        names.append(m.group(1))
    out.append(text[pos:])
    return ''.join(out), names

def run_unit(gen, workdir, rlimit=100, timeout=600, canary=True, extra=()):
    r = UnitResult(); r.name = gen.name
    text = gen.text()
    path = os.path.join(workdir, gen.name + '.rs'); r.path = path
    open(path, 'w').write(text)
    r.trusted = scan_trusted(text)
    p, wall, cmd = _run(path, rlimit, timeout, extra)
    r.wall, r.cmd, r.stderr = wall, cmd, p.stderr
    try:
        j = json.loads(p.stdout)
    except Exception:
        r.status = 'undecided'
        r.reason = 'verus produced no JSON (timeout or crash): rc=%s %s' % (p.returncode, p.stderr[-400:])
        return r
    vr = j.get('verification-results', {})
    fb = []
    try:
        r.smt_ms = j['times-ms']['smt']['smt-run']
        for mod in j['times-ms']['smt']['smt-run-module-times']:
            fb += mod.get('function-breakdown', [])
    except Exception:
        pass
    for f in fb:
        r.functions.append({'fn': f['function'].split('::', 1)[-1], 'mode': f.get('mode:', ''), 'ok': bool(f['success']),
                            'rlimit': f.get('rlimit', 0), 'ms': f.get('time', 0)})
    errs = _parse_errors(p.stderr, text)
    hard = [e for e in errs if not any(k in e['head'] for k in ERR_KINDS)
            and 'aborting due to' not in e['head'] and 'rlimit' not in e['text'].lower()]
    if vr.get('encountered-vir-error') or (not fb and not vr.get('success')) or (hard and not fb):
        r.status = 'undecided'
        r.reason = 'verus rejected the generated text (not a proof failure): ' + '; '.join(e['head'] for e in errs[:3])
        return r
    bad = [f for f in r.functions if not f['ok']]
    if bad or not vr.get('success'):
        rl = [e for e in errs if 'resource limit' in e['text'].lower() or 'rlimit' in e['text'].lower()]
        for f in bad:
            short = f['fn'].split('::')[-1]
            msgs = [e for e in errs if e['fn'] == short]
            r.failed.append({'fn': f['fn'], 'messages': [m['text'] for m in msgs] or [e['text'] for e in errs[:2]],
                             'rlimit_hit': any(m in rl for m in msgs)})
        if r.failed and all(f['rlimit_hit'] for f in r.failed):
            r.status = 'undecided'; r.reason = 'resource limit exceeded in: ' + ', '.join(f['fn'] for f in r.failed)
        elif not r.failed:
            r.status = 'undecided'; r.reason = 'verus reported failure without a failing function: ' + p.stderr[-400:]
        else:
            r.status = 'failed'
        return r
    if canary:
        ctext, names = make_canary(text)
        cpath = os.path.join(workdir, gen.name + '_canary.rs')
        open(cpath, 'w').write(ctext)
        pc, cw, _ = _run(cpath, 5, timeout, extra)
        r.wall += cw
        ok_fns = set()
        try:
            jc = json.loads(pc.stdout)
            for mod in jc['times-ms']['smt']['smt-run-module-times']:
                for f in mod.get('function-breakdown', []):
                    if f['success']: ok_fns.add(f['function'].split('::')[-1])
            vac = sorted(n for n in set(names) if n in ok_fns)
            r.canary = {'checked': len(set(names)), 'failed_as_required': len(set(names)) - len(vac), 'vacuous': vac}
            if vac:
                r.status = 'undecided'; r.reason = 'VACUOUS: `ensures false` verified for ' + ', '.join(vac)
        except Exception:
            r.status = 'undecided'; r.reason = 'canary run produced no JSON: ' + pc.stderr[-300:]
    return r
