"""Deterministic generator of Verus proofs for polynomial identities over the reals.

Z3's nonlinear engine (by(nonlinear_arith)) was measured to hang on some 9-variable degree-3 identities
and to prove others in 1 s — unstable.  This generator instead emits a proof made only of
  * calls to five tiny bare lemmas (distributivity left/right, associativity, left-commutation,
    commutation), each of which is a 2/3-variable identity proved once by(nonlinear_arith), and
  * assertions that are *linear* over opaque product terms (canonical monomials).
so every emitted proof function is checked in Verus' default (linear) mode and is stable.

Only used on the oracle / lemma side (never to rewrite repo code).
"""
from fractions import Fraction

BARE_LEMMAS = '''
// ---- bare polynomial lemmas (the only by(nonlinear_arith) obligations of the generated proofs) ----
pub proof fn pp_distr_l(p: real, q: real, x: real)
    by(nonlinear_arith)
    ensures (p + q) * x == p * x + q * x
{}
pub proof fn pp_distr_r(x: real, p: real, q: real)
    by(nonlinear_arith)
    ensures x * (p + q) == x * p + x * q
{}
pub proof fn pp_assoc(p: real, e: real, d: real)
    by(nonlinear_arith)
    ensures (p * e) * d == p * (e * d)
{}
pub proof fn pp_lcomm(x: real, y: real, z: real)
    by(nonlinear_arith)
    ensures x * (y * z) == y * (x * z)
{}
pub proof fn pp_comm(p: real, e: real)
    by(nonlinear_arith)
    ensures p * e == e * p
{}
pub proof fn pp_one(p: real)
    ensures 1real * p == p, p * 1real == p
{}
pub proof fn pp_zero(p: real)
    ensures 0real * p == 0real, p * 0real == 0real
{}
'''

class E:
    def __add__(s, o): return Add(s, lift(o))
    def __radd__(s, o): return Add(lift(o), s)
    def __sub__(s, o): return Add(s, Neg(lift(o)))
    def __rsub__(s, o): return Add(lift(o), Neg(s))
    def __mul__(s, o): return Mul(s, lift(o))
    def __rmul__(s, o): return Mul(lift(o), s)
    def __neg__(s): return Neg(s)

class Atom(E):
    """name: canonical ordering key; term: the Verus real-typed expression it stands for."""
    def __init__(s, name, term=None): s.name = name; s.term = term if term is not None else name
class Const(E):
    def __init__(s, c): s.c = Fraction(c)
class Add(E):
    def __init__(s, a, b): s.a, s.b = a, b
class Neg(E):
    def __init__(s, a): s.a = a
class Mul(E):
    def __init__(s, a, b): s.a, s.b = a, b

def lift(x):
    return x if isinstance(x, E) else Const(x)

def lit(c):
    c = Fraction(c)
    if c.denominator == 1:
        body = f'{abs(c.numerator)}real'
    else:
        body = f'({abs(c.numerator)}real / {c.denominator}real)'
    return body if c >= 0 else f'(-{body})'

class Prover:
    def __init__(self):
        self.lines = []
        self.terms = {}     # atom name -> verus term

    # ---- canonical rendering
    def mono(self, m):
        """m: tuple of atom names (sorted) -> right-nested product term"""
        if not m: return '1real'
        ts = [self.terms[n] for n in m]
        s = ts[-1]
        for t in reversed(ts[:-1]):
            s = f'({t} * {s})'
        return s
    def term_of(self, m, c):
        if not m: return lit(c)
        if c == 1: return self.mono(m)
        return f'({lit(c)} * {self.mono(m)})'
    def render_terms(self, p):
        return [(m, c) for m, c in sorted(p.items()) if c != 0]
    def render(self, p):
        ts = self.render_terms(p)
        if not ts: return '0real'
        s = self.term_of(*ts[0])
        for m, c in ts[1:]:
            s = f'({s} + {self.term_of(m, c)})'
        return s
    def emit(self, s): self.lines.append('    ' + s)

    # ---- monomial * monomial -> canonical monomial, with proof steps; returns sorted tuple
    def insert(self, x, n):
        """known canonical n (tuple); prove  x * mono(n) == mono(sorted(n+x)).  returns result tuple."""
        if not n:
            self.emit(f'pp_one({self.terms[x]});')
            return (x,)
        if x <= n[0]:
            return (x,) + n
        # x * (w1 * rest) == w1 * (x * rest)
        w1, rest = n[0], n[1:]
        if not rest:
            self.emit(f'pp_comm({self.terms[x]}, {self.terms[w1]});')
            return (w1, x)
        self.emit(f'pp_lcomm({self.terms[x]}, {self.terms[w1]}, {self.mono(rest)});')
        k = self.insert(x, rest)       # x * rest == mono(k)
        return (w1,) + k               # w1 * mono(k) is canonical since w1 <= everything
    def mono_mul(self, m, n):
        """prove mono(m) * mono(n) == mono(result)."""
        if not m:
            self.emit(f'pp_one({self.mono(n)});')
            return n
        if not n:
            self.emit(f'pp_one({self.mono(m)});')
            return m
        if len(m) == 1:
            return self.insert(m[0], n)
        v1, rest = m[0], m[1:]
        # (v1 * rest) * n == v1 * (rest * n)
        self.emit(f'pp_assoc({self.terms[v1]}, {self.mono(rest)}, {self.mono(n)});')
        k = self.mono_mul(rest, n)
        return self.insert(v1, k)

    # ---- expression -> (term, poly)
    def prove(self, e):
        if isinstance(e, Atom):
            self.terms[e.name] = e.term
            return e.term, {(e.name,): Fraction(1)}
        if isinstance(e, Const):
            return lit(e.c), ({(): e.c} if e.c != 0 else {})
        if isinstance(e, Neg):
            t, p = self.prove(e.a)
            q = {m: -c for m, c in p.items()}
            tt = f'(-{t})'
            self.emit(f'assert({tt} == {self.render(q)});')
            return tt, q
        if isinstance(e, Add):
            ta, pa = self.prove(e.a); tb, pb = self.prove(e.b)
            q = dict(pa)
            for m, c in pb.items():
                q[m] = q.get(m, 0) + c
            q = {m: c for m, c in q.items() if c != 0}
            tt = f'({ta} + {tb})'
            self.emit(f'assert({tt} == {self.render(q)});')
            return tt, q
        if isinstance(e, Mul):
            ta, pa = self.prove(e.a); tb, pb = self.prove(e.b)
            tt = f'({ta} * {tb})'
            A = self.render_terms(pa); B = self.render_terms(pb)
            q = {}
            for ma, ca in A:
                for mb, cb in B:
                    m = tuple(sorted(ma + mb)); q[m] = q.get(m, 0) + ca * cb
            q = {m: c for m, c in q.items() if c != 0}
            if not A or not B:
                self.emit(f'pp_zero({tb if not A else ta});')
                self.emit(f'assert({tt} == 0real);')
                return tt, {}
            SA, SB = self.render(pa), self.render(pb)
            self.emit(f'assert({tt} == ({SA} * {SB}));')
            # left distribution: (a1+...+an)*SB == a1*SB + ... + an*SB
            for k in range(len(A), 1, -1):
                head = self.render(dict(A[:k-1])); last = self.term_of(*A[k-1])
                self.emit(f'pp_distr_l({head}, {last}, {SB});')
            for (ma, ca) in A:
                ai = self.term_of(ma, ca)
                for k in range(len(B), 1, -1):
                    head = self.render(dict(B[:k-1])); last = self.term_of(*B[k-1])
                    self.emit(f'pp_distr_r({ai}, {head}, {last});')
                for (mb, cb) in B:
                    bj = self.term_of(mb, cb)
                    Ma, Mb = self.mono(ma), self.mono(mb)
                    # (ca*Ma)*(cb*Mb) == ca*(cb*(Ma*Mb))
                    if ma and ca != 1:
                        self.emit(f'pp_assoc({lit(ca)}, {Ma}, {bj});')
                    if mb and cb != 1 and ma:
                        self.emit(f'pp_lcomm({Ma}, {lit(cb)}, {Mb});')
                    if ma and mb:
                        k = self.mono_mul(ma, mb)
                        self.emit(f'assert(({ai} * {bj}) == {self.term_of(k, ca * cb)});')
                    else:
                        k = tuple(sorted(ma + mb))
                        self.emit(f'assert(({ai} * {bj}) == {self.term_of(k, ca * cb)});')
            self.emit(f'assert({tt} == {self.render(q)});')
            return tt, q
        raise TypeError(e)

def identity_proof(name, params, lhs, rhs, requires=(), pub=True):
    """Emit `proof fn name(params) requires .. ensures lhs == rhs { ... }`.
    lhs/rhs: E trees over Atoms whose terms mention the params.  Raises if the identity is false."""
    pr = Prover()
    tl, pl = pr.prove(lhs)
    tr, prr = pr.prove(rhs)
    nz = lambda p: {m: c for m, c in p.items() if c != 0}
    if nz(pl) != nz(prr):
        raise ValueError(f'{name}: not an identity: {nz(pl)} vs {nz(prr)}')
    req = ''
    if requires:
        req = '    requires ' + ', '.join(requires) + ',\n'
    body = '\n'.join(pr.lines)
    return (f'pub proof fn {name}({params})\n{req}    ensures {tl} == {tr}\n{{\n{body}\n}}\n', tl, tr)
