"""Registry: property id -> plan (which units / harnesses decide it), level, notes."""
from kani_run import Harness as H

PROPS = {}
NOT_APPLICABLE = {
    'C09': 'six-stage numeric error budget dominated by polynomial-vs-transcendental approximation error of fast powf/expf/cbrtf; '
           'no contract expressible to Verus (floats opaque / exact-real has zero error) or dischargeable by CBMC (three symbolic codes through ~150 float ops) decides it; '
           'its structural halves are decided under C05, C06, C08, C11, C15',
    'C20': 'Cargo feature forwarding and target-feature selection are build-system facts, not contracts on functions; the libm branch is an intrinsic neither verifier models precisely',
}

EXACT = 'E2: machine arithmetic treated as mathematical (f32/f64 -> exact reals; IEEE rounding, literal rounding, NaN/inf/overflow dropped)'
TOOLS = 'Verus 0.2026.09.13 + Z3 4.16; Kani 0.68 + CBMC 6.11 + CaDiCaL and their models of Rust/MIR and IEEE-754'

def reg(pid, **kw):
    PROPS[pid] = kw

# ------------------------------------------------------------------------------------------- C19
KMX = ('yuvxyb-math/src/matrix.rs', 'k_matrix.rs', 'verif_kani_matrix')
KMXP = ('yuvxyb-math/src/matrix.rs', 'k_matrix_points.rs', 'verif_kani_matrix_points')
KMA = ('yuvxyb-math/src/mul_add.rs', 'k_mul_add.rs', 'verif_kani_mul_add')
def mul_add_harnesses():
    D = 'every bit pattern of the three operands (complete: loop-free, full domain)'
    return [H('fast_mul_add_f32_every_triple', domain=D, desc='real <f32 as FastMulAdd>::fast_mul_add(x,a,b) is bit for bit the IEEE x*a+b (unfused) or x.mul_add(a,b) (fused); discharges the fast_mul_add hypothesis of T: Exact / T: Rounded for f32'),
            H('fast_mul_add_f64_every_triple', domain=D, desc='same for the f64 implementor (f32 and f64 behave alike)'),
            H('multiply_add_every_triple', domain=D, desc='real multiply_add(a,b,c) is bit for bit a*b+c (unfused) or a.mul_add(b,c) (fused)')]
UR_OPT = {'optional': 'the a-priori f32 rounding budget of the matrix products (standard model); the exact algebra is decided by U-matrix / U-color and the kernels by Kani'}
def plan_c19(tier, seed):
    FX = 'FIXED integer-valued operands in generic position (det(A) = 4) on which f32/f64 arithmetic is exact; expected values computed in i32 from the textbook definitions'
    hs = [H('matrix_ops_fixed_exact_f32', fixed=True, bounded=FX, domain='one fixed operand set', desc='real compiled f32 instantiation: mul_mat, mul_vec, mul_arr, transpose, cross, dot, scalar_div, component_mul, invert = adj/det, A*inv(A) = inv(A)*A = I, all exact'),
          H('matrix_ops_fixed_exact_f64', fixed=True, bounded=FX, domain='one fixed operand set', desc='same for the f64 instantiation (f32 and f64 behave alike)'),
          H('identity_is_neutral_fixed', fixed=True, bounded=FX, domain='one fixed matrix', desc='identity() is a two-sided unit, f32 and f64')]
    SP = '160 fixed operand sets (tools_golden_matrix.py: pseudo-random entries in [-2,2] with |det| >= 0.5, 20 with |det| <= 0.6, 20 with corner entries), references computed in f64 inside the harness'
    hs += [H(f'matrix_points_{t}_{c}', fixed=True, bounded=SP, domain='40 fixed matrices and vector pairs', desc=f'real {t} instantiation: mul_mat/mul_vec/mul_arr/cross/dot within 1e-5*max(1,|exact|); A*invert(A) and invert(A)*A within 1e-4 of I')
           for t in ('f32', 'f64') for c in 'abcd']
    return {'verus': [('u_matrix', {}), ('u_round', UR_OPT)], 'kani': [{'crate_dir': 'yuvxyb-math', 'inject': [KMA], 'harnesses': mul_add_harnesses() if tier == 'thorough' else mul_add_harnesses()[2:]},
                                                                      {'crate_dir': 'yuvxyb-math', 'inject': [KMX, KMXP], 'harnesses': hs}]}
reg('C19', plan=plan_c19, level='proof', min_obligations=60,
    title='3x3 matrix/vector algebra agrees with its mathematical definition',
    technique='Verus contracts on the real generic matrix.rs for every exact field T + generated polynomial lemmas (A*inv(A)=I); the products (mul_arr, mul_vec, mul_mat, dot) additionally for every T obeying the standard model of binary32/binary64 rounding (a-priori error bound); Kani complete harnesses on the real mul_add.rs (fast_mul_add for f32/f64, multiply_add: bit for bit x*a+b, every operand bit pattern)',
    text='Unbounded proof: every function of yuvxyb-math/src/matrix.rs (verbatim, generic) carries a postcondition equating it with the '
         'mathematical product/transpose/cross/dot/inverse over the reals, for EVERY T whose operators are exact field operations '
         '(one proof covers the f32 and f64 instantiations); lemma_inverse proves A*inv(A)=inv(A)*A=I for every matrix with det != 0. Rounding: for every T obeying the standard model (relative error 2^-24 per operation; f64 is tighter), '
         'mul_arr / mul_vec / mul_mat / dot are within row_bound = 3.1*2^-24*sum|a_k b_k| of the exact value, i.e. within 2.3e-6 for entries in [-2,2] (lemma_c19_products) - inside the 1e-5 tolerance. '
         'RowVector::cross is within 2.1*2^-24*(|a|+|b|) of a-b for its two exact products (1.1e-6 for entries in [-2,2], lemma_c19_cross); component_mul and scalar_div are single roundings (relative 2^-24 <= 1e-5*max(1,|exact|), lemma_c19_single; unary minus exact, division one rounding). '
         'Not decided in general: rounding of invert (cancellation; the 1e-4 bound for |det| >= 0.5) - checked, BOUNDED, on 160 fixed matrices (f32 and f64) by Kani together with the product tolerances.',
    note=EXACT + '; the 1e-5/1e-4 tolerances of the statement are assumed to absorb f32/f64 rounding (conditioning argument, not machine-checked). ' + TOOLS,
    assumptions=[EXACT, 'T: Exact axioms (operators are the real field operations); Fx/Fx64 implement them by definition (ghost reals), no axiom admitted; that the two real implementors f32/f64 compute fast_mul_add as the IEEE x*a+b (fused or unfused) is proved bit-precisely by Kani k_mul_add.rs (multiply_add in the quick tier, fast_mul_add f32/f64 in the thorough tier)',
                 'rounding of f32/f64 stays inside the stated tolerances (not checked)'],
    not_decided=['rounding of invert (1e-4 for |det| >= 0.5) beyond the 160 sample matrices'],
    design_ref='DESIGN.md §5 C19')

# ------------------------------------------------------------------------------------------- C18
KMP = ('yuvxyb-math/src/lib.rs', 'k_math_points.rs', 'verif_kani_math_points')
MATH_INJECT = [('yuvxyb-math/src/pow_exp.rs', 'k_pow_exp.rs', 'verif_kani_pow_exp'),
               ('yuvxyb-math/src/cbrtf.rs', 'k_cbrtf.rs', 'verif_kani_cbrtf')]
def math_totality_harnesses():
    return [H('exp2_total', domain='x: all 2^32 f32 bit patterns', desc='no value reaches to_int_unchecked non-finite/out of range; no overflow/shift trap',
              miri=('yuvxyb-math', 'yuvxyb_math::powf(2.0, f(v0))')),
            H('log2_total', domain='x: all f32'),
            H('powf_total', domain='(x,y): all f32 x f32', miri=('yuvxyb-math', 'yuvxyb_math::powf(f(v0), f(v1))')),
            H('expf_total', domain='x: all f32', miri=('yuvxyb-math', 'yuvxyb_math::expf(f(v0))')),
            H('cbrtf_total', domain='x: all f32')]
def plan_c18(tier, seed):
    hs = math_totality_harnesses() + [
        H('expf_saturates_high', domain='x in [89, 1e38]', desc='expf(x) == +inf'),
        H('expf_saturates_low', domain='x in [-1e38, -88]', desc='expf(x) == 0'),
        H('cbrtf_seed_is_odd', domain='x: all non-NaN f32', desc='bit-trick seed of -x is the negated seed of x'),
    ]
    exps = ['127', '120', '1', '254'] if tier == 'thorough' else []
    for e in exps:
        hs.append(H(f'cbrtf_odd_exp_{e}', bounded=f'optional: exponent fixed to {e}, 2^23 mantissas symbolic', timeout=900,
                    domain=f'x = 2^({e}-127) * 1.m, all m', desc='cbrtf(-x) == -cbrtf(x) bit for bit'))
    SP = 'sample points only (golden f64 values generated by tools_golden_math.py): detects globally damaged accuracy, does not prove the accuracy clauses'
    hs += [H(f'powf_points_{k}', fixed=True, bounded=SP, domain='64 fixed (x, y) pairs (415 in total: 25 bases x 20 exponents, true result in [1e-35, 1e35])', desc='real powf within 2.5e-4 + 8e-6*|y| relative of the f64 value') for k in range(7)]
    hs += [H('expf_points', fixed=True, bounded=SP, domain='103 fixed x in [-85, 85]', desc='real expf within 1e-5 relative of the f64 value'),
           H('cbrtf_points', fixed=True, bounded=SP, domain='18 fixed x', desc='real cbrtf within 1 ulp of the f64 cube root; odd'),
           H('cbrtf_points_more', fixed=True, bounded=SP, domain='172 fixed x: 4 mantissas x every 6th binary exponent of the normal range', desc='real cbrtf within 1 ulp of the f64 cube root; odd')]
    return {'kani': [{'crate_dir': 'yuvxyb-math', 'inject': MATH_INJECT + [KMP], 'harnesses': hs, 'timeout': 2400}]}
reg('C18', plan=plan_c18, level='proof', min_obligations=30,
    title='fast math helpers: totality and saturation (accuracy clauses not decided)',
    technique='Kani/CBMC loop-free harnesses over the full f32 domain of the real exp2/log2/powf/expf/cbrtf (bit-precise, complete)',
    text='Complete bit-precise proof (no loop, full symbolic f32 inputs) that cbrtf, powf, expf and their private helpers are total: no panic, '
         'no arithmetic/shift overflow, and the operand of the unchecked float->int conversion in exp2 is always finite and in range; '
         'expf(x)=+inf on [89,1e38] and 0 on [-1e38,-88]. cbrtf oddness: seed symmetry proved for all inputs, full oddness only bounded per exponent. '
         'The accuracy clauses (1 ulp, 2.5e-4+8e-6|y|, 1e-5) are NOT decided in general: no oracle for pow/exp/cbrt inside either verifier. '
         'BOUNDED sample-point check of those clauses: the real helpers are evaluated bit-precisely at 415 (x,y) pairs, 103 expf arguments and 190 cbrtf arguments (every 6th binary exponent, 4 mantissas) '
         'against golden f64 values (tools_golden_math.py) within exactly the stated tolerances - a detector for globally damaged accuracy (coefficient, dropped Newton step, range reduction), not a proof.',
    note='Trusted: ' + TOOLS + '. Not decided: accuracy of the polynomial approximations against the transcendental functions; cbrtf oddness beyond the bounded exponents.',
    assumptions=['CBMC float model is IEEE-754 binary32/binary64 round-to-nearest-even', 'cfg!(target_feature="fma") is false in the Kani build (unfused branch verified)'],
    not_decided=['cbrtf within 1 ulp (beyond 190 sample points)', 'powf relative error 2.5e-4+8e-6|y| (beyond 415 sample points)', 'expf relative error 1e-5 (beyond 103 sample points)', 'cbrtf oddness for all exponents (bounded only)'],
    design_ref='DESIGN.md §5 C18')

# ------------------------------------------------------------------------------------------- shared Kani pieces (yuvxyb crate)
YR = ('src/yuv_rgb.rs', 'k_yuv_rgb.rs', 'verif_kani_yuv_rgb')
def depth_names(prefix, tier, storage=('u16', 'u8'), quick_depths=(8, 10)):
    depths = range(8, 17) if tier == 'thorough' else quick_depths
    out = []
    for st in storage:
        for bd in (depths if st == 'u16' else [8]):
            for rg in ('lim', 'full'):
                out.append(f'{prefix}_{st}_b{bd:02d}_{rg}')
    return out
KC = ('src/yuv_rgb/color.rs', 'k_color.rs', 'verif_kani_color')
MATS = ['bt709', 'bt470m', 'bt470bg', 'st170m', 'st240m', 'bt2020ncl', 'ycgco']

import random
def sweep_selection(kind, tier, seed, n_quick=12, n_thorough=60):
    """Seed-selected set of bounded per-plane sweeps: (matrix idx, depth, full, plane, companion a, companion b)."""
    rnd = random.Random(seed * 7919 + (1 if kind == 'decode' else 2))
    out, seen = [], set()
    n = n_thorough if tier == 'thorough' else n_quick
    depths = [8, 10, 12, 16] if tier == 'thorough' else [8, 10]
    while len(out) < n:
        mi = rnd.randrange(7); bd = rnd.choice(depths); full = rnd.random() < 0.5; plane = rnd.randrange(3)
        k = 1 << (bd - 8); mx = (1 << bd) - 1
        lum = [0, 16 * k, 128 * k, 235 * k, mx]; chr_ = [0, 16 * k, 128 * k, 240 * k, mx]
        pools = [lum, chr_, chr_]; others = [p for i, p in enumerate(pools) if i != plane]
        a = rnd.choice(others[0]); b = rnd.choice(others[1])
        key = (mi, bd, full, plane, a, b)
        if key in seen: continue
        seen.add(key); out.append(key)
    return out
def sweep_harness_text(kind, sel):
    fn = 'sweep_decode' if kind == 'decode' else 'sweep_roundtrip'
    names, txt = [], ''
    for (mi, bd, full, plane, a, b) in sel:
        nm = f'{fn}_m{mi}_b{bd:02d}_{"full" if full else "lim"}_p{plane}_{a}_{b}'
        names.append(nm)
        txt += f'#[kani::proof] #[kani::unwind(4)] fn {nm}() {{ {fn}({mi}, {bd}, {str(full).lower()}, {plane}, {a}, {b}); }}\n'
    return names, txt

# ------------------------------------------------------------------------------------------- C01
BITPRECISE = 'CBMC float model is IEEE-754 binary32/binary64 round-to-nearest-even; cfg!(target_feature="fma") false in the Kani build (mul_add calls in the kernels are fused regardless)'
KAPI = ('src/lib.rs', 'k_api_golden.rs', 'verif_kani_api')
APIB = 'PUBLIC API ONLY, fixed 9x1 4:4:4 image / 9 fixed RGB pixels against golden f64 H.273 values (tools_golden_yuv.py); anchor-free: survives any internal refactoring; run as the FIRST Kani job, before any kernel-level harness file is injected'
API_DEC = ['bt709_8_full_u8', 'ycgco_16_lim_u16', 'bt709_8_lim_u8', 'bt2020non_10_full_u16', 'st170m_16_full_u16', 'bt470bg_12_lim_u16']
API_ENC = ['bt709_8_full_u8', 'bt470m_10_lim_u16', 'bt709_8_lim_u8', 'ycgco_16_full_u16', 'st240m_16_lim_u16', 'bt2020non_12_full_u16']
def api_job(kind, tier, nquick):
    names = {'decode': API_DEC, 'roundtrip': API_DEC, 'encode': API_ENC}[kind]
    desc = {'decode': 'Rgb::try_from(&Yuv): every component within 3e-6 of H.273 (codes incl. 0, 1, black, mid, white, max: clamps exercised)',
            'roundtrip': 'decode then Yuv::try_from((&Rgb, cfg)): every code back (legal-range clamp; full-range chroma 0 may be 1), config and dims kept',
            'encode': 'Yuv::try_from((&Rgb, cfg)): |code - clamp(ideal)| <= 0.5 + 1e-6*2^n (pixels incl. primaries, white, black, out-of-gamut), config and dims kept'}[kind]
    sel = names if tier == 'thorough' else names[:nquick]
    return {'crate_dir': '', 'inject': [KAPI], 'harnesses': [H(f'api_{kind}_{n}', fixed=True, bounded=APIB, domain='9 fixed pixels', desc=desc) for n in sel]}
def plan_c01(tier, seed):
    hs = [H(n, domain='all codes <= 2^n-1', desc='|to_f32_luma(c) - clamp((c-black)/range,0,1)| <= 1e-6 (H.273 black/range from the statement)') for n in depth_names('norm_luma', 'thorough')]
    hs += [H(n, domain='all codes <= 2^n-1', desc='|to_f32_chroma(c) - clamp((c-2^(n-1))/range,-.5,.5)| <= 1e-6') for n in depth_names('norm_chroma', 'thorough')]
    hs += [H(f'decode_{m}', domain='input-free', desc='every f32 entry of the real get_yuv_to_rgb_matrix within 2e-7 of the H.273 closed form (f64)') for m in MATS]
    sel = sweep_selection('decode', tier, seed)
    names, txt = sweep_harness_text('decode', sel)
    hs += [H(n, bounded='one plane symbolic over all codes, other two fixed at the companions in the name', domain=n,
             desc='real to_f32_* + inv.mul_arr vs H.273 closed form in f64, 3e-6') for n in names]
    return {'verus': [('u_matrix', {}), ('u_color', {}), ('u_planes', {}), ('u_round', UR_OPT)],
            'kani': [api_job('decode', tier, 2), {'crate_dir': '', 'inject': [YR, KC], 'append': [('k_color.rs', txt)], 'harnesses': hs}]}
reg('C01', plan=plan_c01, level='proof', min_obligations=400,
    title='YUV->RGB decoding equals the H.273 definition',
    technique='Verus: real color.rs/matrix.rs under exact-field contracts (decode = inverse of the H.273 encode matrix, Kr/Kb table) and the real mul_arr under the standard model of f32 rounding (error budget lemma for all triples); Kani: bit-precise normalisation of every code and input-free evaluation of all 7 decode matrices; bounded per-plane sweeps',
    text='Proof in three contract layers on the real code: (1) Verus, exact reals: get_yuv_constants is the H.273 Kr/Kb table, the forward matrix is the H.273 encode matrix for symbolic Kr,Kb, '
         'get_yuv_to_rgb_matrix is its inverse (inv*fwd = I proved for every invertible matrix), mul_arr is the exact product; (2) Kani, bit-precise and complete: every code of every depth 8..16, both ranges, '
         'u8/u16 normalises to clamp((c-black)/range) within 1.2e-7, and each f32 entry of all 7 real decode matrices is within 4e-7 of the closed form; (3) Verus U-round: the real generic mul_arr, for every T obeying the STANDARD MODEL of binary32 rounding '
         '(relative error 2^-24 per operation, fused or unfused), is within 7e-7 of the exact product at decode-path magnitudes, and lemma_decode_budget composes (2) and (3) into |result - H.273 value| <= 3e-6 for ALL (Y,U,V) triples at once; '
         '(4) bounded sweeps of the real composite per plane bit-precisely. The composition step rests on the standard model (an assumption about f32, not bit-blasted) and on reading the Kani bounds as hypotheses.',
    note=EXACT + ' for layer 1; ' + BITPRECISE + '; the composite 3e-6 bound for arbitrary triples rests on the margin argument (entry error 2e-7, normalisation error <= 1e-6) and the bounded sweeps. ' + TOOLS,
    assumptions=[EXACT, BITPRECISE, 'SM: standard model of binary32 arithmetic (each operation: relative error <= 2^-24 plus 2^-149; no overflow)', 'f64 evaluation of the closed forms inside the Kani harnesses is exact to ~1e-16', 'per-pixel loop of yuv_to_rgb is a map of the kernels (proved structurally under C11)'],
    not_decided=['a monolithic BIT-PRECISE proof for all triples (did not finish in 26 min): the all-triples bound is proved under the standard model of f32 rounding instead, with the Kani component bounds as hypotheses'],
    design_ref='DESIGN.md §5 C01')

# ------------------------------------------------------------------------------------------- C02
def plan_c02(tier, seed):
    hs = [H(n, domain='v: every f32 in [-2,2]', desc='|code - clamp(range*v+black,0,max)| <= 0.5 + 4e-7*2^n for the f32 value v fed to the quantiser, ideal exact in f64') for n in depth_names('quant_luma', 'thorough')]
    hs += [H(n, domain='v: every f32 in [-2,2]', desc='chroma quantiser incl. the full-range -0.5 special case') for n in depth_names('quant_chroma', 'thorough')]
    hs += [H(n, domain='v: all 2^32 f32 bit patterns', desc='emitted luma and chroma codes <= 2^n-1') for n in depth_names('codes_valid', 'thorough')]
    hs += [H(f'encode_{m}', domain='input-free', desc='every f32 entry of the real get_rgb_to_yuv_matrix within 6e-8 of the H.273 closed form (f64)') for m in MATS]
    return {'verus': [('u_color', {}), ('u_dispatch', {}), ('u_round', UR_OPT)],
            'kani': [api_job('encode', tier, 2), {'crate_dir': '', 'inject': [YR, KC], 'harnesses': hs}]}
reg('C02', plan=plan_c02, level='proof', min_obligations=400,
    title='RGB->YUV encoding rounds to the nearest H.273 code',
    technique='Kani function-level proofs of the real quantiser over every f32 (round, saturating cast, clamp, special case) against the exact f64 ideal; Verus: encode matrix = H.273 (exact), output config/dimensions by plane-loop contracts',
    text='Complete bit-precise proof (Kani, loop-free, v symbolic over every f32 in [-2,2] and, for validity, over all 2^32 bit patterns) that from_f32_luma/from_f32_chroma with the real get_scale_offset '
         'produce the code nearest to range*v+black clamped to [0,2^n-1], all depths 8..16, both ranges, u8/u16; all 7 real encode matrices are bit-precisely within 6e-8 of the H.273 closed form and '
         'equal it exactly under real semantics (Verus, symbolic in Kr,Kb); the output carries the requested config (Unspecified fields resolved) and dimensions, plane sizes (w>>ss_x, h>>ss_y) (Verus contracts on rgb_to_yuv / ypbpr_to_ycbcr / Yuv::new / the TryFrom body, U-dispatch). '
         'ALL RGB AT ONCE (Verus U-round): under the standard model of binary32 rounding the real fwd.mul_arr is within 6e-7 of the exact H.273 value for every rgb in [-0.5,1.5]^3 (lemma_encode_budget, with the Kani entry bound 6e-8 and row sums <= 1), '
         'so range*6e-7 plus the quantiser\'s own 0.5 + 4e-7*2^n (Kani, for the f32 value actually fed) stay inside the property\'s 0.5 + 1e-6*2^n.',
    note=EXACT + ' for the matrix layer; ' + BITPRECISE + '. ' + TOOLS,
    assumptions=[EXACT, BITPRECISE, 'SM: standard model of binary32 arithmetic (each operation: relative error <= 2^-24 plus 2^-149; no overflow)', 'v_frame accessor contracts (see C07/C11)'],
    not_decided=['a monolithic bit-precise proof over all RGB triples: the composition is proved under the standard model of f32 rounding with the Kani bounds as hypotheses'],
    design_ref='DESIGN.md §5 C02')

# ------------------------------------------------------------------------------------------- C08
def plan_c08(tier, seed):
    hs = [H(n, domain='all codes <= 2^n-1', desc='from_f32_luma(to_f32_luma(c)) == clamp(c,16k,235k) (full: == c)') for n in depth_names('rt_luma', 'thorough')]
    hs += [H(n, domain='all codes <= 2^n-1', desc='from_f32_chroma(to_f32_chroma(c)) == clamp(c,16k,240k) (full: == c, or 0 -> 1)') for n in depth_names('rt_chroma', 'thorough')]
    hs += [H(n, domain='all codes <= 2^n-1 x every f32 perturbation |e| <= 2.5e-6', desc='from_f32_luma(to_f32_luma(c) + e) returns the (legal-range-clamped) code: the quantiser absorbs the matrix round-trip error') for n in depth_names('rt_pert_luma', 'thorough')]
    hs += [H(n, domain='all codes <= 2^n-1 x every f32 perturbation |e| <= 2.5e-6', desc='same for chroma (full range: code 0 may become 1)') for n in depth_names('rt_pert_chroma', 'thorough')]
    hs += [H(f'decode_{m}', domain='input-free', desc='decode matrix entries within 4e-7 of the closed form; row magnitudes') for m in MATS]
    hs += [H(f'encode_{m}', domain='input-free', desc='encode matrix entries within 6e-8 of the closed form; row abs sums <= 1') for m in MATS]
    sel = sweep_selection('roundtrip', tier, seed)
    names, txt = sweep_harness_text('roundtrip', sel)
    hs += [H(n, bounded='one plane symbolic over all codes, other two fixed at the companions in the name', domain=n,
             desc='real composite from_f32 . fwd.mul_arr . inv.mul_arr . to_f32 returns the (legal-range-clamped) codes') for n in names]
    return {'verus': [('u_color', {}), ('u_planes', {}), ('u_round', UR_OPT)],
            'kani': [api_job('roundtrip', tier, 1), {'crate_dir': '', 'inject': [YR, KC], 'append': [('k_color.rs', txt)], 'harnesses': hs}]}
reg('C08', plan=plan_c08, level='proof', min_obligations=400,
    title='YUV->RGB->YUV is a lossless code round trip',
    technique='Kani: complete bit-precise proofs that code->float->code is the identity per plane AND absorbs any perturbation |e| <= 2.5e-6 (all codes, depths, ranges, storage); Verus: fwd*(inv*v) = v exactly and, under the standard model of f32 rounding, the real inv.mul_arr then fwd.mul_arr stay within 2.5e-6 for ALL triples; bounded per-plane sweeps',
    text='Complete bit-precise proof per plane that the real to_f32_* / from_f32_* pair returns every code (after legal-range clamping; full-range chroma 0 may become 1), for all depths 8..16, both ranges, u8/u16; '
         'exact-real proof (Verus) that the decode matrix is the two-sided inverse of the encode matrix for the 7 standards and fwd*(inv*v) = v for every vector; ALL TRIPLES AT ONCE: (Verus U-round) for every T obeying the standard model of binary32 rounding the real '
         'generic mul_arr has the a-priori error row_bound, and lemma_roundtrip_budget shows that the f32 value after inv.mul_arr then fwd.mul_arr is within 2.5e-6 of the normalised input in every plane, given the Kani-proved entry bounds (4e-7 / 6e-8) and row magnitudes; '
         '(Kani rt_pert_*) the real quantiser returns the code for EVERY code and EVERY perturbation |e| <= 2.5e-6, all depths 8..16, both ranges, u8/u16. Bounded per-plane sweeps check the real composite bit-precisely. '
         'The composition rests on the standard model (assumption about f32) and on reading the Kani bounds as hypotheses of the Verus lemma.',
    note=EXACT + ' for fwd*inv=I; ' + BITPRECISE + '; SM: standard model of binary32 arithmetic for the cross-plane composition (machine-checked lemma, assumed model). ' + TOOLS,
    assumptions=[EXACT, BITPRECISE, 'SM: standard model of binary32 arithmetic (each operation: relative error <= 2^-24 plus 2^-149; no overflow)', 'the f32 addition `to_f32(c) + e` in rt_pert_* ranges over every f32 e, so it covers every value within 2.5e-6 of the normalised code'],
    not_decided=['a monolithic BIT-PRECISE proof for all triples (intractable): all-triples losslessness is proved under the standard model with the Kani component bounds as hypotheses'],
    design_ref='DESIGN.md §5 C08')

# ------------------------------------------------------------------------------------------- C07 / C11 / C12 (U-planes)
PLANES_ASSUME = ['v_frame: PlaneConfig::new and Fixed::align_power_of_two are extracted from the registry source and VERIFIED; assumed (transcribed from their bodies): PlaneData::new allocates stride*alloc_height samples initialised to 128, data_origin(_mut), PlaneData::len, Plane::iter via any_sample_exceeds',
                 'allocation sizes fit usize: (width+128)*height <= usize::MAX (precondition of Plane::new); images are non-degenerate (width > 0 or height == 0: v_frame PlaneIter panics otherwise)',
                 '64-bit target (size_of usize == 8); subsampling shifts < 64; bit depth 8..16',
                 'scalar float kernels are deterministic functions (uninterpreted in E1)',
                 '<[T]>::get_unchecked(_mut) safety contract is index < len']
def plan_c07(tier, seed):
    hs = math_totality_harnesses()
    return {'verus': [('u_planes', {}), ('u_ctor', {})],
            'kani': [{'crate_dir': 'yuvxyb-math', 'inject': MATH_INJECT, 'harnesses': hs},
                     {'crate_dir': '', 'inject': [KT], 'harnesses': transfer_total_harnesses()}]}
reg('C07', plan=plan_c07, level='proof', min_obligations=100,
    title='No safe API call sequence reaches undefined behaviour',
    technique='Verus loop invariants on the real plane loops: every get_unchecked(_mut) index proved < len for unbounded geometry from the Yuv::new contract; Kani: nothing non-finite/out-of-range reaches a float->int conversion for any f32',
    text='Unbounded proof (Verus) over all frame geometries (any width/height/stride/origin/padding/subsampling the constructor accepts, any usize): Yuv::new returns Ok only for frames satisfying yuv_wf '
         '(chroma planes cover the luma plane at the declared subsampling, every plane fits its buffer), and under yuv_wf each of the 4+4 unchecked plane accesses of ycbcr_to_ypbpr / ypbpr_to_ycbcr is in bounds '
         '(the stub precondition IS the std safety contract) with no usize overflow; the float-image constructors guarantee data.len() == width*height without wrap-around. '
         'Complete bit-precise proof (Kani) that exp2/powf/expf and all 20 transfer-curve scalars never feed a NaN/inf/out-of-range value to a float->int conversion, for every f32 bit pattern. '
         'The from_raw_parts_mut flattening in transfer.rs is checked only by a bounded Kani harness (len <= 3).',
    note='Assumed: ' + '; '.join(PLANES_ASSUME) + '. unsafe code inside v_frame/aligned-vec is trusted. ' + TOOLS,
    assumptions=PLANES_ASSUME + [BITPRECISE],
    not_decided=['from_raw_parts_mut flatten for len > 3 (bounded harness only)', 'unsafe code inside v_frame / aligned-vec'],
    design_ref='DESIGN.md §5 C07')

KP = ('src/yuv_rgb.rs', 'k_planes.rs', 'verif_kani_planes')
KPW = ('src/lib.rs', 'k_pointwise.rs', 'verif_kani_pw')
KT = ('src/yuv_rgb/transfer.rs', 'k_transfer.rs', 'verif_kani_transfer')
def plan_c11(tier, seed):
    B = 'real v_frame planes (Plane::new / from_slice), concrete tiny geometry, symbolic contents'
    FX = B.replace('symbolic contents', 'FIXED pixel contents with pairwise distinct codes (content-independent index errors only)')
    geos = [('422_4x1_u8', '4:2:2 8 bit limited'), ('440_2x2_u16', '4:4:0 10 bit limited u16'), ('420_4x2_u8', '4:2:0 8 bit full'), ('444_3x1_u16', '4:4:4 12 bit full u16')]
    hs = [H(f'enc_blocks_{g}_fixed', fixed=True, bounded=FX, domain='one fixed image', desc=f'real ypbpr_to_ycbcr: luma pointwise, chroma plane size, chroma sample from its own block ({d})') for g, d in (geos if tier == 'thorough' else geos[:2])]
    hs += [H('dec_pointwise_422_4x1_u8', bounded=B, domain='8 symbolic u8 samples', desc='real ycbcr_to_ypbpr: pixel (x,y) from Y(x,y), U/V(x>>1,y)'),
           H('dec_pointwise_420_4x2_u8', bounded=B, domain='12 symbolic u8 samples', desc='real ycbcr_to_ypbpr: pixel (x,y) from Y(x,y), U/V(x>>1,y>>1)')]
    if tier == 'thorough':
        hs += [H(f'enc_blocks_{g}', timeout=2400, bounded='optional (6-9 min and several GB each; per-harness timeout, a missing verdict is recorded, not an alarm): ' + B, domain='all pixel components symbolic in [-0.25,1.25]', desc=f'same with symbolic contents ({d})') for g, d in geos]
    PW = 'public conversion API on a 5x1 / 1x5 image with FIXED pairwise different pixels, compared bit for bit with the 1x1 conversions of its pixels'
    pw = [H('pw_lrgb_to_hsl_5x1_fixed', fixed=True, bounded=PW, domain='one fixed image', desc='LinearRgb -> Hsl loop: pointwise, dims kept'),
          H('pw_hsl_to_lrgb_1x5_fixed', fixed=True, bounded=PW, domain='one fixed image', desc='Hsl -> LinearRgb loop: pointwise, dims kept'),
          H('pw_rgb_to_lrgb_5x1_fixed', fixed=True, bounded=PW, domain='one fixed image', desc='Rgb -> LinearRgb: transfer flatten (sRGB) + primaries transform (BT.2020): pointwise, dims kept'),
          H('pw_lrgb_to_rgb_1x5_fixed', fixed=True, bounded=PW, domain='one fixed image', desc='LinearRgb -> Rgb: primaries transform (P3) + transfer flatten (BT.1886): pointwise, dims kept')]
    pw += [H(f'flatten_len_{n}', fixed=True, bounded=f'Vec length == {n}', domain=f'{n} pixels, concrete content', desc='from_raw_parts_mut flatten in bounds (pointer checks) and pointwise') for n in (1, 2, 3)]
    if tier == 'thorough':
        pw += [H('pw_lrgb_to_xyb_5x1_fixed', fixed=True, timeout=2400, bounded='optional (about 14 min; per-harness timeout): ' + PW, domain='one fixed image', desc='LinearRgb -> Xyb loop: pointwise, dims kept'),
               H('pw_xyb_to_lrgb_1x5_fixed', fixed=True, timeout=2400, bounded='optional (per-harness timeout): ' + PW, domain='one fixed image', desc='Xyb -> LinearRgb loop: pointwise, dims kept')]
    return {'verus': [('u_dispatch', {}), ('u_xyb', {})], 'kani': [{'crate_dir': '', 'inject': [KP, KPW, KT], 'harnesses': hs + pw}]}
reg('C11', plan=plan_c11, level='proof', min_obligations=40,
    title='Conversions are pointwise, order-preserving and layout-independent',
    technique='Verus loop invariants: the output of each plane loop is stated as a function of origin-relative samples (row-major index map, chroma index (y>>ss_y, x>>ss_x)), for all geometries',
    text='Unbounded proof (Verus) for the two YUV plane loops: ycbcr_to_ypbpr returns width*height pixels in row-major order where pixel (x,y) is the kernel applied to Y(x,y) and the chroma samples at '
         '(x>>ss_x, y>>ss_y) of the origin-relative planes - hence independent of stride, padding and padding contents, and equal to the 1x1 conversion; ypbpr_to_ycbcr produces planes of size (w>>ss_x, h>>ss_y) '
         'whose luma plane is the pointwise quantisation of the input and whose every chroma sample (both planes) is the quantised chroma of a pixel INSIDE ITS OWN BLOCK (invariant over the last_uv_pos write-skipping: a skipped write always targets a block already reached); '
         'sources are borrowed immutably (frame condition by typing); results are spec functions of the inputs (determinism). '
         'The per-pixel loops of yuv_to_rgb, transform_primaries, LinearRgb<->Hsl are verified as in-place maps of one per-pixel function (index-loop form, same per-element expression); '
         'every TryFrom/From body copies width and height through (contracts on all 18 conversion impls). the two XYB per-image functions are verified as per-pixel maps too (U-xyb, exact reals). The transfer flatten (from_raw_parts_mut) is covered only by the bounded Kani harness. '
         'BOUNDED side checks (never counted as proved): Kani runs the REAL ypbpr_to_ycbcr / ycbcr_to_ypbpr on real v_frame planes at concrete tiny geometries (4:2:2 4x1, 4:4:0 2x2; thorough: 4:2:0 4x2, 4:4:4 3x1 and symbolic contents) and asserts the statement directly; '
         'these need no statement anchors and so still decide those geometries when a loop is restructured and the Verus invariants no longer attach.',
    note='Assumed: ' + '; '.join(PLANES_ASSUME) + '. ' + TOOLS,
    assumptions=PLANES_ASSUME,
    not_decided=['pointwise-ness of the from_raw_parts_mut flatten in transfer.rs (bounded Kani harness only)'],
    design_ref='DESIGN.md §5 C11')

KC3 = ('src/lib.rs', 'k_ctor.rs', 'verif_kani_ctor')
def plan_c12(tier, seed):
    hs = [H('range_check_is_any_visible_sample_2x2_444_10bit', bounded='real v_frame planes, 2x2 4:4:4, all 12 samples symbolic', domain='12 symbolic u16 samples',
            desc='cross-check of the cut iterator expression (R-anycut): InvalidData <=> some visible sample > 2^n-1'),
          H('range_check_is_any_visible_sample_2x2_420_12bit', bounded='real v_frame planes, 2x2 luma + 1x1 chroma 4:2:0, all 6 samples symbolic', domain='6 symbolic u16 samples',
            desc='same, subsampled geometry'),
          H('range_check_ignores_stride_padding_2x2_in_4x3', bounded='real v_frame planes, 2x2 visible luma inside a 4x3 buffer (xpad 2, ypad 1), all 20 samples symbolic', domain='20 symbolic u16 samples',
            desc='only VISIBLE samples are range-checked: junk in the stride / bottom padding does not reject the frame')]
    CB = 'data length fixed (0 or 6 pixels; a Vec of symbolic length is intractable for CBMC); width and height: every usize'
    for ty in ('lrgb', 'xyb', 'hsl'):
        for n in (6, 0):
            hs.append(H(f'ctor_{ty}_len{n}', bounded=CB, domain='(width, height): usize^2', desc=f'real {ty} constructor: Ok <=> width*height == {n} as a mathematical (u128) product, else ResolutionMismatch; accepted image exposes data and dims verbatim'))
    hs.append(H('ctor_rgb_len6', bounded=CB, domain='(width, height): usize^2, every transfer and primaries value', desc='real Rgb::new: same, plus Unspecified transfer/primaries resolved to sRGB/BT.709 and others kept'))
    return {'verus': [('u_planes', {'stage': 'ctor'}), ('u_ctor', {})], 'kani': [{'crate_dir': '', 'inject': [KY, KC3], 'harnesses': hs}]}
reg('C12', plan=plan_c12, level='proof', min_obligations=40,
    title='Constructors accept exactly the well-formed images and keep them verbatim',
    technique='Verus postconditions on the real constructors: Ok <=> well-formedness predicate written from the statement, error variant by priority, verbatim storage',
    text='Unbounded proof (Verus) over all frames and configs: Yuv::new returns Ok iff decimation matches, luma dims are multiples of the subsampling, chroma planes have the implied size, every plane fits its buffer, and '
         '(16-bit storage, depth < 16) no visible sample exceeds 2^n-1; the error is SubsamplingMismatch / InvalidLumaWidth / InvalidLumaHeight / InvalidData in the documented priority; on Ok the frame is stored verbatim '
         'and the config is the input config with Unspecified fields resolved. Rgb/LinearRgb/Xyb/Hsl::new return Ok iff data.len() == width*height (mathematical product, no wrap-around), else ResolutionMismatch; accessors return the stored values.',
    note='Assumed: the cut iterator expression of the sample-range check behaves as its stub says (true iff a visible sample exceeds max_value) - cross-checked on the real v_frame code by two bounded Kani harnesses (2x2 geometries, symbolic samples); ' + '; '.join(PLANES_ASSUME[2:3]) + '. ' + TOOLS,
    assumptions=['R-anycut stub any_sample_exceeds', '64-bit target; subsampling shifts < 64; bit depth 8..16'],
    design_ref='DESIGN.md §5 C12')

CURVES = ['log100_oetf', 'log100_inverse_oetf', 'log316_oetf', 'log316_inverse_oetf', 'rec_1886_eotf', 'rec_1886_inverse_eotf',
          'rec_470m_oetf', 'rec_470m_inverse_oetf', 'rec_470bg_oetf', 'rec_470bg_inverse_oetf', 'rec_709_oetf', 'rec_709_inverse_oetf',
          'xvycc_eotf', 'xvycc_inverse_eotf', 'srgb_eotf', 'srgb_inverse_eotf', 'st_2084_inverse_oetf', 'st_2084_oetf',
          'arib_b67_inverse_oetf', 'arib_b67_oetf']
SLOW_FINITE = ['xvycc_inverse_eotf', 'st_2084_inverse_oetf', 'st_2084_oetf']
def transfer_finite_harnesses(tier):
    hs = [H(f'finite_{c}', domain='x: every f32 in [0,1]', desc=f'{c}: finite output') for c in CURVES if c not in SLOW_FINITE]
    if tier == 'thorough':
        hs += [H(f'finite_{c}', bounded='optional: complete query but > 4 min; per-harness timeout', timeout=2400, domain='x: every f32 in [0,1]', desc=f'{c}: finite output') for c in SLOW_FINITE]
    return hs
def transfer_total_harnesses():
    return [H(f'total_{c}', domain='x: all 2^32 f32 bit patterns', desc=f'{c}: no panic/overflow/invalid float->int for any f32') for c in CURVES] + \
           [H(f'flatten_len_{n}', bounded=f'Vec length == {n}', domain=f'{n} pixels, concrete content', desc='from_raw_parts_mut flatten in bounds (pointer checks) and pointwise') for n in range(4)]
KH = ('src/hsl.rs', 'k_hsl.rs', 'verif_kani_hsl')
KL = ('src/linear_rgb.rs', 'k_lrgb.rs', 'verif_kani_lrgb')

# ------------------------------------------------------------------------------------------- C17
KHP = ('src/hsl.rs', 'k_hsl_points.rs', 'verif_kani_hsl_points')
def plan_c17(tier, seed):
    hs = [H('hsl_hue_nonneg', domain='rgb: every f32 triple in [0,1]^3', desc='H >= 0'),
          H('hsl_hue_below_360', domain='[0,1]^3', desc='H < 360'),
          H('hsl_sat_range', domain='[0,1]^3', desc='0 <= S <= 1'),
          H('hsl_light_range', domain='[0,1]^3', desc='0 <= L <= 1'),
          H('hsl_light_def', domain='[0,1]^3', desc='|L - (max+min)/2| <= 1e-6 (reference in f64)'),
          H('hsl_grey', domain='g: every f32 in [0,1]', desc='grey -> (0, 0, g) exactly'),
          H('hsl_total', domain='all f32 triples', desc='no panic/overflow'),
          H('hsl_to_lrgb_total', domain='all f32 triples', desc='no panic/overflow (values not decided: CBMC fmodf model)'),
          H('hsl_points_forward', fixed=True, bounded='226 fixed pixels of [0,1]^3 ({0,0.13,0.25,0.5,0.77,1}^3 plus 10 near-tie / near-grey pixels) against the f64 hexcone definition (tools_golden_hsl.py)',
            domain='226 fixed pixels', desc='real lrgb_to_hsl: ranges, L within 1e-6, S within 1e-4 (0.01<=L<=0.99), H within 0.01 deg on the circle (max-min>=0.01), grey -> (0,0,L)')]
    if tier == 'thorough':
        hs += [H(n, bounded='optional: complete in principle (full [0,1]^3) but each query needs > 25 min; run under a per-harness timeout', timeout=5400,
                 domain='[0,1]^3 restricted to the side conditions of the statement', desc=d)
               for n, d in (('hsl_sat_def', 'S vs (max-min)/(1-|2L-1|) within 1e-4 for 0.01<=L<=0.99'),
                            ('hsl_hue_def_red', 'H vs hexcone hue, red sextants, 0.01 deg, max-min >= 0.01'),
                            ('hsl_hue_def_green', 'green sextants'), ('hsl_hue_def_blue', 'blue sextants'))]
    return {'verus': [('u_hsl', {}), ('u_dispatch', {})], 'kani': [{'crate_dir': '', 'inject': [KH, KL, KHP], 'harnesses': hs, 'timeout': 22000}]}
reg('C17', plan=plan_c17, level='proof', min_obligations=200,
    title='HSL conversion follows the hexcone model, stays in range and round-trips (exact reals + bit-precise ranges)',
    technique='Verus exact-real contracts on the real lrgb_to_hsl / hsl_to_lrgb (hexcone definition, L=0/L=1, round-trip lemma); Kani loop-free harnesses over every f32 triple of [0,1]^3 (bit-precise ranges, L definition, grey)',
    text='Complete bit-precise proof over all of [0,1]^3 (three symbolic f32, no loop) that the real lrgb_to_hsl returns H in [0,360), S in [0,1], L in [0,1], L within 1e-6 of (max+min)/2, '
         'and maps grey to (0,0,g) exactly; both directions are total on arbitrary f32. Exact-real proof (Verus, U-hsl) on the real functions: L = (max+min)/2, S = (max-min)/(1-|2L-1|) (shown <= 1, so the cap only absorbs rounding), '
         'H = hue by the sextant of the maximum channel wrapped into [0,360) wherever the code\'s EPSILON-fuzzy maximum tests select the true maximum, H in [0,360) for all inputs; hsl_to_lrgb is the hexcone inverse with L=0 -> black and L=1 -> white '
         'for every H,S; and RGB->HSL->RGB returns the pixel EXACTLY on that region (chroma >= EPSILON, L at least EPSILON from 0 and 1). The bit-precise S/H equalities (> 25 min each) run only in the thorough tier under a timeout; the quick tier checks them, bounded, at 226 fixed pixels against golden f64 hexcone values (hsl_points_forward). '
         'NOT decided: the f32 rounding tolerances (1e-4, 0.01 deg, 1e-5) and the EPSILON-wide fuzz zones of the round trip.',
    note=BITPRECISE + '. ' + TOOLS,
    assumptions=[BITPRECISE, EXACT, 'f32 % is an uninterpreted remainder with the division axiom (ax_rem)'],
    not_decided=['f32 rounding inside the S (1e-4), H (0.01 deg) and round-trip (1e-5) tolerances: decided under exact reals; bit-precise S/H only in the thorough tier under a timeout', 'round trip inside the EPSILON-wide zones where two channels are within 1.2e-7 of the maximum or chroma < 1.2e-7'],
    design_ref='DESIGN.md §5 C17')

# ------------------------------------------------------------------------------------------- C14 / C15 / C03 (U-dispatch)
DISPATCH_ASSUME = PLANES_ASSUME + ['get_yuv_to_rgb_matrix/get_rgb_to_yuv_matrix Ok/Err contracts assumed in U-dispatch, proved on the real code in U-color (same spec text; U-color is part of the C14 check)',
    'values of gamut_* named by uninterpreted functions of `primaries` (purity); XYB/HSL kernels and the 18 image_* curve maps uninterpreted deterministic',
    'R-tryfrom: conversion calls inside TryFrom/From bodies resolved to the verified functions by the static type of their argument',
    'type invariants yuv_wf/rgb_wf/lrgb_wf/xyb_wf stated as preconditions of the conversions; enc_cfg_ok (shifts < 64, depth 8..16, allocation fits) is the supported-configuration precondition']
KS = ('src/lib.rs', 'k_support.rs', 'verif_kani_support')
KSM = ('src/yuv_rgb/color.rs', 'k_support_matrix.rs', 'verif_kani_support_matrix')
LOGSTUB = 'Kani: log::max_level() stubbed to Off (the log crate reads an atomic, unsupported by Kani): the `log::warn!` calls are not executed'
def plan_c14(tier, seed):
    hs = [H('transfer_support_symmetric_every_value', domain='every TransferCharacteristic value (symbolic u8 through FromPrimitive), empty image',
            desc='to_linear / to_gamma succeed or fail together with the same error, which names the transfer (Unspecified <=> UnspecifiedTransferCharacteristic); no panic'),
          H('yuv_rgb_support_symmetric_every_matrix_and_primaries', domain='every (MatrixCoefficients, ColorPrimaries) pair',
            desc='get_rgb_to_yuv_matrix / get_yuv_to_rgb_matrix succeed or fail together with the same error naming matrix or primaries; the 7 standard matrices never fail; no panic')]
    if tier == 'thorough':
        hs.append(H('primaries_support_symmetric_every_value', bounded='optional (complete query over every ColorPrimaries value, about 15 min; per-harness timeout)', timeout=2400,
                    domain='every ColorPrimaries value, empty image', desc='transform_primaries to and from BT.709 succeed or fail together with the same error naming the primaries; no panic'))
    return {'verus': [('u_dispatch', {}), ('u_color', {})], 'kani': [{'crate_dir': '', 'inject': [KS, KSM], 'harnesses': hs}]}
reg('C14', plan=plan_c14, level='proof', min_obligations=150,
    title='Support and error contract over every metadata combination',
    technique='Verus postconditions over the real av-data enums on every match table and every TryFrom/From body: Ok <=> conjunction of stage predicates, named error variant by stage priority; symmetry lemmas',
    text='Unbounded proof by case analysis over ALL enum values (not only the 3276 fully specified triples): get_rgb_to_yuv_matrix/get_yuv_to_rgb_matrix/get_yuv_constants/get_primaries_xy (U-color, exact), to_linear/to_gamma, transform_primaries, '
         'gamut_* and all 18 conversion impls return Ok exactly when the stage predicates written from the statement hold, and otherwise the ConversionError variant naming the first failing field; no unwrap/expect/index can panic on these paths; '
         'decode and encode use the same predicate (symmetry), single-stage pairs fail with the same variant, the 7 standard matrices / 14 curves / 11 primaries always succeed, and with a standard matrix the YUV<->RGB result term mentions only the matrix (independence). '
         'Independent second opinion on the real compiled code (Kani, complete over every enum value built from a symbolic u8, anchor-free): the two matrix getters and to_linear/to_gamma (thorough: transform_primaries to/from BT.709) '
         'succeed or fail together with the same field-naming error and never panic.',
    note='; '.join(DISPATCH_ASSUME) + '; ' + LOGSTUB + '. ' + TOOLS,
    assumptions=DISPATCH_ASSUME + [LOGSTUB], design_ref='DESIGN.md §5 C14')
def plan_c15(tier, seed):
    hs = [H('unspecified_resolution_every_config_and_size', domain='every YuvConfig (all enum values, symbolic u8 through FromPrimitive) and every (width, height): usize^2',
            desc='the real fix_unspecified_data == the mpv heuristic restated from the property text; never Unspecified; other fields untouched')]
    return {'verus': [('u_dispatch', {})], 'kani': [{'crate_dir': '', 'inject': [KS], 'harnesses': hs}]}
reg('C15', plan=plan_c15, level='proof', min_obligations=60,
    title='Unspecified metadata resolved deterministically; labels match content',
    technique='Verus: the mpv heuristic as postcondition of guess_*/fix_unspecified_data for all usize sizes; label = content as a postcondition over uninterpreted stage functions applied to the STORED metadata',
    text='Unbounded proof: guess_matrix_coefficients, guess_color_primaries and fix_unspecified_data equal the documented heuristic transcribed from the statement for every width/height, never return Unspecified; Yuv::new stores exactly the resolved config; '
         'Rgb::new and Rgb::try_from((LinearRgb,t,p)) resolve to sRGB/BT.709 and label the output with the transfer/primaries actually applied; Yuv::try_from((LinearRgb,cfg)) applies the gamma curve and primaries conversion of the config it stores '
         '(this clause failed on the pinned tree: finding F5, fixed). The numeric half of the clause (decoding reproduces the input within the C09 budget) is not decided (see C09). '
         'Independent second opinion (Kani, complete, anchor-free): the real fix_unspecified_data equals the heuristic restated from the property text for every config (all enum values) and every usize width/height.',
    note='; '.join(DISPATCH_ASSUME) + '; ' + LOGSTUB + '. ' + TOOLS,
    assumptions=DISPATCH_ASSUME + [LOGSTUB], not_decided=['numeric round trip through the stored config within the C09 budget'], design_ref='DESIGN.md §5 C15')
KCP = ('src/yuv_rgb/transfer.rs', 'k_curve_points.rs', 'verif_kani_curve_points')
GOLD = 'fixed points of [0,1] (12 per curve and direction; PQ fewer) against golden values computed in f64 from the DEFINING formulas with the standards\' constants (tools_golden_curves.py), through the real public dispatch, bit-precise f32 + fast powf/expf'
def curve_point_harnesses(tier, pq=True):
    names = ['bt1886', 'bt470m', 'bt470bg', 'xvycc', 'srgb', 'logarithmic100', 'logarithmic316', 'hybridloggamma', 'linear']
    hs = [H(f'curve_points_{n}', fixed=True, bounded=GOLD, domain='12 fixed points', desc=f'{n}: to_linear (and, unless the curve needs std ln/log10/sqrt, to_gamma and the round trip) within 2.5e-4 of the formula; aliases bit-identical; Linear bit-exact') for n in names]
    if pq:
        hs.append(H('curve_points_pq_two_evaluations', fixed=True, bounded=GOLD, domain='PQ: to_linear(0.05), to_gamma(0.001)', desc='PQ (scene-referred, OOTF scale 59.490803): both directions at one point each (2.5e-4 / 5.7e-4)'))
        if tier == 'thorough':
            hs.append(H('curve_points_perceptualquantizer', fixed=True, timeout=2400, bounded='optional (about 7 min; per-harness timeout): ' + GOLD, domain='PQ: 3 points, both directions and round trip', desc='PQ at 0.001, 0.05, 0.5'))
    return hs
KCT = ('src/yuv_rgb/transfer.rs', 'k_curve_tables.rs', 'verif_kani_curve_tables')
TABS = ['rec_1886_eotf', 'rec_1886_inverse_eotf', 'rec_470m_oetf', 'rec_470m_inverse_oetf', 'rec_470bg_oetf', 'rec_470bg_inverse_oetf', 'xvycc_eotf', 'xvycc_inverse_eotf',
        'srgb_eotf', 'srgb_inverse_eotf', 'rec_709_oetf', 'rec_709_inverse_oetf', 'arib_b67_inverse_oetf', 'log100_inverse_oetf', 'log316_inverse_oetf']
def curve_table_harnesses(tier):
    TB = '272-point grid of [0,1] (i/255 and i/255/64, i <= 16) against golden f64 values of the defining formula (tools_golden_curves.py); the real scalar function in f32 with the fast powf/expf, bit-precise'
    hs = [H(f'curve_table_{n}', fixed=True, bounded=TB, domain='272 fixed points', desc=f'{n}: within 2.5e-4 of the defining formula at every grid point') for n in TABS]
    hs += [H('curve_table_st_2084_oetf', fixed=True, bounded=TB + ' - PQ: 10 hand-picked grid points incl. the dark end (CBMC does not fold PQ: 10-30 s per point)', domain='10 fixed points', desc='PQ linear->gamma within 5.7e-4'),
           H('curve_table_st_2084_inverse_oetf', fixed=True, bounded=TB + ' - PQ: 6 hand-picked grid points', domain='6 fixed points', desc='PQ gamma->linear within 2.5e-4')]
    if tier == 'thorough':
        hs += [H(f'curve_table_{n}_more', fixed=True, timeout=3000, bounded='optional (per-harness timeout): ' + TB + ' - PQ: every 7th grid point', domain='39 fixed points', desc=f'{n}: PQ on every 7th grid point') for n in ('st_2084_oetf', 'st_2084_inverse_oetf')]
    return hs
def plan_c03(tier, seed):
    hs = [H(f'anchor_{c}', domain='input-free', desc=f'{c}(0) within 1e-6 of 0 and (1) within budget of 1') for c in
          ['rec_1886_eotf', 'rec_1886_inverse_eotf', 'rec_470m_oetf', 'rec_470m_inverse_oetf', 'rec_470bg_oetf', 'rec_470bg_inverse_oetf',
           'xvycc_eotf', 'xvycc_inverse_eotf', 'srgb_eotf', 'srgb_inverse_eotf', 'st_2084_inverse_oetf', 'st_2084_oetf']]
    hs += curve_point_harnesses(tier, pq=(tier == 'thorough')) + curve_table_harnesses(tier)
    return {'verus': [('u_dispatch', {}), ('u_curves', {})], 'kani': [{'crate_dir': '', 'inject': [KT, KCP, KCT], 'harnesses': hs}]}
reg('C03', plan=plan_c03, level='proof', min_obligations=100,
    title='Transfer characteristics: dispatch, aliases, identity, curve = standard formula over ideal pow/exp/log, anchors (accuracy of the fast approximations not decided)',
    technique='Verus: postconditions on the real to_linear/to_gamma match tables (curve named after each characteristic; aliases one term; Linear returns its input) and exact-real contracts on all 24 scalar curve functions and 13 constants (piecewise formula of the standard over ideal pow/exp/log10/ln/sqrt); Kani anchors',
    text='Unbounded proof over all 19 TransferCharacteristic values and both directions that to_linear/to_gamma apply the curve NAMED after the characteristic (each image_* stub is keyed by the scalar function its macro invocation names), '
         'that BT.1886/ST170M/ST240M/BT.2020-10/12 produce the same term (bit-identical results) and that Linear returns the very same Vec (bit-exact identity); exact-real proof (U-curves) that each of the 24 scalar curve functions '
         'IS the piecewise defining formula of its standard (thresholds on the right side, right exponents, scene-referred PQ = inverse EOTF of the BT.2100 OOTF, HLG, log curves with their cut-offs bracketed to 1e-7) over ideal pow/exp/log functions, '
         'and that the 13 constants equal the standards\' (ST 2084 m2,c1,c3 exactly; others within stated f32-level tolerances; sRGB within 1e-3 of 1.055/0.0031308); bit-precise input-free evaluation of f(0) and f(1) for the 12 powf-based curves. '
         'NOT decided: |fast curve - ideal curve| < 2.5e-4 on ALL of [0,1] (accuracy of the degree-5 log2/exp2 polynomials against transcendental functions; no oracle in either verifier). '
         'BOUNDED checks at the f32 level against golden values of the defining formulas (generated in f64 by tools_golden_curves.py): a 272-point grid per scalar curve function (PQ: 6-10 points; thorough 39), and, anchor-free through the public dispatch, 12 fixed points per curve and direction with alias/identity bit-equality; '
         'linear->gamma of HLG/Log100/Log316 is left out there (std ln/log10/sqrt are only over-approximated by CBMC).',
    note='; '.join(DISPATCH_ASSUME[-4:]) + '; the macro-generated flatten loop applies the scalar to every component (bounded Kani harness flatten_len_*). ' + TOOLS,
    assumptions=DISPATCH_ASSUME[-4:], not_decided=['accuracy of the fast powf/expf against the ideal functions (the 2.5e-4 / 5.7e-4 budgets)'],
    design_ref='DESIGN.md §5 C03')
KX = ('src/rgb_xyb.rs', 'k_rgb_xyb.rs', 'verif_kani_rgb_xyb')

# ------------------------------------------------------------------------------------------- C04 / C05 (XYB)
XYB_ND = ['accuracy of cbrtf (see C18) and f32 rounding: the 2e-6 / 5e-5 budgets are decided only under exact-real semantics with cbrtf as an (ideal) uninterpreted cube root']
def plan_c04(tier, seed):
    hs = [H('opsin_total', domain='all f32 triples', desc='opsin_absorbance + mixed_to_xyb: no panic/overflow'),
          H('opsin_unit_cube_positive', domain='[0,1]^3', desc='mixes finite, >= 0.003 (normal positive argument for cbrtf), <= 1.01'),
          H('xyb_definition_structure_stubbed_cbrt', bounded='8^3 grid {-1,-0.6,-0.25,0,0.3,0.5,1,4}^3 of one-pixel images; cbrtf stubbed by a cheap smooth g (the cube root itself is C18)',
            domain='512 pixels (symbolic index triple)', desc='real linear_rgb_to_xyb == the statement formula X=(L-M)/2, Y=(L+M)/2, B=S, (L,M,S)=g(max(0,A*rgb+b))-g(b) from libjxl digits in f64, within 5e-5: decides where clamp, bias and X/Y mix sit, independently of the Verus loop anchors')]
    return {'verus': [('u_xyb', {}), ('u_dispatch', {})], 'kani': [{'crate_dir': '', 'inject': [KX], 'harnesses': hs}]}
reg('C04', plan=plan_c04, level='proof', min_obligations=60,
    title='Linear RGB->XYB equals the JPEG XL opsin definition (exact reals, cbrtf uninterpreted)',
    technique='Verus exact-real contracts on the real linear_rgb_to_xyb (whole per-image function), opsin_absorbance, mixed_to_xyb and the extracted constants vs the libjxl digits of the statement',
    text='Exact-real proof (Verus) on the real kernels: opsin_absorbance(rgb)[i] = sum_j A[i][j]*rgb[j] + b over the code\'s own constants, which equal libjxl\'s matrix within 1e-7 and bias within 1e-8, '
         'with every row summing to exactly 1 and three equal biases; mixed_to_xyb(m) = ((m0-m1)/2, (m0+m1)/2, m2); and the whole linear_rgb_to_xyb (index-loop form of its iterator loops) returns, for every pixel i, '
         'X=(L-M)/2, Y=(L+M)/2, B=S with (L,M,S) = cbrt(max(0, A*rgb+b)) - cbrt(b), same length, where cbrt is the (uninterpreted) value of cbrtf. Bit-precise (Kani) totality and positivity of the mixes on the unit cube. '
         'NOT decided: the 2e-6 budget under f32 rounding and the accuracy of cbrtf.',
    note=EXACT + '; ' + BITPRECISE + '. ' + TOOLS, assumptions=[EXACT, BITPRECISE], not_decided=XYB_ND, design_ref='DESIGN.md §5 C04')
def plan_c05(tier, seed):
    hs = [H('xyb_inverse_one_pixel_total', bounded='Vec length 1', domain='one pixel, all f32 triples', desc='xyb_to_linear_rgb total (no panic/overflow), length preserved'),
          H('xyb_round_trip_fixed_2px', fixed=True, bounded='two FIXED pixels, real cbrtf', domain='one fixed 2-pixel image', desc='real linear_rgb_to_xyb then xyb_to_linear_rgb returns both pixels within 5e-5 (f32, real cube root), length kept')]
    return {'verus': [('u_xyb', {}), ('u_dispatch', {})], 'kani': [{'crate_dir': '', 'inject': [KX], 'harnesses': hs}]}
reg('C05', plan=plan_c05, level='proof', min_obligations=40,
    title='XYB->linear RGB inverts the forward XYB transform (exact reals, ideal cube root)',
    technique='Verus exact-real contracts on the real xyb_to_linear_rgb and linear_rgb_to_xyb + round-trip lemma: with an ideal cube root the composition is p + (INV*A - I)p, residual entries <= 1e-6',
    text='Exact proof (Verus, rational arithmetic on the literals extracted from the source on every run) that E = INVERSE_OPSIN_ABSORBANCE_MATRIX * OPSIN_ABSORBANCE_MATRIX - I has |E_ij| <= 1e-6 for all entries and that '
         'NEG_OPSIN_ABSORBANCE_BIAS = -OPSIN_ABSORBANCE_BIAS: with an ideal cube root the exact round trip of p in [0,1]^3 is p + E*p, error <= 3e-6 < 5e-5, so the inverse agrees with the forward constants rather than a stale set. '
         'A changed significant digit of any of the 18 literals breaks a residual lemma. The whole xyb_to_linear_rgb (un-mix, subtract cbrt(-bias), cube, add -bias, inverse matrix; index-loop form) is under contract, and lemma_round_trip proves that '
         'for p in [0,1]^3 the composition with linear_rgb_to_xyb returns p within 3e-6 when cbrtf is an ideal odd cube root (hypotheses stated explicitly). NOT decided: f32 rounding and the accuracy of cbrtf.',
    note=EXACT + '. ' + TOOLS, assumptions=[EXACT], not_decided=XYB_ND, design_ref='DESIGN.md §5 C05')

# ------------------------------------------------------------------------------------------- C06
PRIMS = ['bt470m', 'bt470bg', 'st170m', 'st240m', 'film', 'bt2020', 'st428', 'p3dci', 'p3display', 'tech3213']
def plan_c06(tier, seed):
    hs = []
    for p in PRIMS:
        hs += [H(f'prim_{p}_to709', domain='input-free', desc=f'{p} -> BT.709: images of e1,e2,e3 (= the f32 matrix entries) within 2e-6 of the columns of M_out^-1*Bradford*M_in (f64, H.273 chromaticities); row abs sums <= 5.5; white -> white; there-and-back'),
               H(f'prim_709_to_{p}', domain='input-free', desc=f'BT.709 -> {p}: same checks')]
    hs.append(H('prim_same_is_identity', domain='one symbolic pixel (all f32 triples)', desc='identical primaries: bit-exact identity'))
    return {'verus': [('u_dispatch', {}), ('u_matrix', {}), ('u_round', UR_OPT)], 'kani': [{'crate_dir': '', 'inject': [KC], 'harnesses': hs}]}
reg('C06', plan=plan_c06, level='proof', min_obligations=1000,
    title='Primaries conversion equals the CIE derivation and keeps white white',
    technique='Kani input-free bit-precise evaluation of the real transform_primaries on the basis and white for all 10 non-trivial primaries x 2 directions against the f64 CIE/Bradford derivation; Verus: composition structure, in-place pointwise map, identity clause, exact linearity of mul_arr',
    text='Complete (input-free, rounding included) bit-precise proof that for every supported primaries set P and both directions the real transform_primaries maps e1,e2,e3 to the columns of M_out^-1*Bradford(white_in->white_out)*M_in '
         '(computed in f64 from the H.273 chromaticities written in the harness) within 2e-6, maps (1,1,1) to (1,1,1) within 1e-5 and returns the basis after there-and-back within 1e-5 (BT.709 itself is the identity case); '
         'Verus proves that ONE matrix, composed as gamut_xyz_to_rgb(out)*white_point_adaptation(in,out)*gamut_rgb_to_xyz(in), is applied to every pixel in place, that equal primaries return the very same Vec (bit-exact), '
         'and (U-matrix) that mul_arr is the exact linear map; ALL PIXELS AT ONCE (U-round): under the standard model of binary32 rounding the real mul_arr applied to any pixel with |v_k| <= m is within 1e-5*max(1,m) of the CIE reference '
         '(lemma_primaries_budget, with the Kani entry bound 2e-6 and row abs sums <= 5.5).',
    note=BITPRECISE + '; ' + EXACT + ' for linearity; ' + '; '.join(DISPATCH_ASSUME[-4:-2]) + '. ' + TOOLS,
    assumptions=[BITPRECISE, EXACT, 'SM: standard model of binary32 arithmetic'] + DISPATCH_ASSUME[-4:-2],
    not_decided=['a bit-precise proof for arbitrary pixels: the per-pixel bound is proved under the standard model of f32 rounding with the Kani entry bounds as hypotheses'],
    design_ref='DESIGN.md §5 C06')

# ------------------------------------------------------------------------------------------- C13
def plan_c13(tier, seed):
    hs = [H(n, domain='v: all 2^32 f32 bit patterns', desc='emitted luma and chroma codes <= 2^n-1') for n in depth_names('codes_valid', 'thorough')]
    hs += [H('hsl_total', domain='all f32 triples'), H('hsl_finite', domain='[0,1]^3', desc='finite outputs'), H('hsl_to_lrgb_total', domain='all f32 triples'),
           H('opsin_total', domain='all f32 triples'), H('opsin_unit_cube_positive', domain='[0,1]^3'),
           H('xyb_inverse_one_pixel_total', bounded='Vec length 1', domain='one pixel, all f32 triples')]
    return {'verus': [('u_dispatch', {})],
            'kani': [{'crate_dir': 'yuvxyb-math', 'inject': MATH_INJECT, 'harnesses': math_totality_harnesses() + [H('powf_unit_interval_finite', domain='x in [0,1], y in [0,80]', desc='finite, non-negative')]},
                     {'crate_dir': '', 'inject': [YR, KT, KH, KL, KX], 'harnesses': hs + [h for h in transfer_total_harnesses() if not h.bounded] + transfer_finite_harnesses(tier)}]}
reg('C13', plan=plan_c13, level='proof', min_obligations=1500,
    title='Conversions are total on arbitrary float data and always emit valid codes',
    technique='Kani loop-free harnesses over all f32 bit patterns for every scalar kernel (default checks = overflow/debug-assertion semantics + UB); Verus: ypbpr_to_ycbcr emits only codes <= 2^n-1 and its Yuv::new(..).unwrap() cannot fail; no unwrap/expect on any conversion path',
    text='Complete bit-precise proof (Kani) for every scalar kernel - the 20 transfer-curve scalars, powf/expf/exp2/log2/cbrtf, lrgb_to_hsl, hsl_to_lrgb, opsin_absorbance, mixed_to_xyb, from_f32_luma/chroma - over ALL f32 inputs (NaN, +-inf, subnormals, huge): '
         'no panic, no arithmetic/shift overflow, no invalid float->int conversion; emitted codes <= 2^n-1 for every depth/range/storage; finite [0,1] inputs give finite outputs. Unbounded proof (Verus) that the encoder loop stores only such codes, '
         'that the constructor then accepts the frame (unwrap cannot panic) and that every conversion body is panic-free given the kernels (the image conversions are maps of the kernels, C11). The XYB per-image loops are covered only for one pixel (bounded).',
    note=BITPRECISE + '; ' + '; '.join(PLANES_ASSUME) + '; supported configuration = bit depth 8..16, subsampling shifts < 64, dimensions multiples of the subsampling (otherwise ypbpr_to_ycbcr panics by design). ' + TOOLS,
    assumptions=[BITPRECISE] + PLANES_ASSUME, not_decided=['XYB per-image loops beyond one pixel', 'finite-in/finite-out for xvycc_inverse_eotf and the two PQ curves in the quick tier (thorough tier, under a timeout)'], design_ref='DESIGN.md §5 C13')

# ------------------------------------------------------------------------------------------- C16
def plan_c16(tier, seed):
    hs = [H(n, domain='input-free', desc='chroma mid code -> 0.0 exactly, black -> 0.0 exactly, white within 1e-6 of 1') for n in depth_names('anchors', 'thorough')]
    hs += [H(f'neutral_{m}', domain='y: every f32 in [0,1], cb=cr=0', desc='R=G=B spread <= 5e-7 through the real decode matrix') for m in MATS]
    hs += [H(f'encrows_{m}', domain='input-free', desc='encode luma row sums to 1, chroma rows to 0 (bit-precise, <= 1.2e-7)') for m in MATS]
    hs += [H('hsl_grey', domain='g in [0,1]', desc='grey -> (0,0,g) exactly')]
    hs += [H(f'anchor_{c}', domain='input-free', desc='f(0) ~ 0, f(1) ~ 1') for c in
           ['rec_1886_eotf', 'rec_1886_inverse_eotf', 'rec_470m_oetf', 'rec_470m_inverse_oetf', 'rec_470bg_oetf', 'rec_470bg_inverse_oetf',
            'xvycc_eotf', 'xvycc_inverse_eotf', 'srgb_eotf', 'srgb_inverse_eotf', 'st_2084_inverse_oetf', 'st_2084_oetf']]
    hs += [H(f'prim_{p}_to709', domain='input-free', desc='white -> white within 1e-5 (greys follow by linearity)') for p in PRIMS]
    return {'verus': [('u_color', {}), ('u_xyb', {}), ('u_dispatch', {})], 'kani': [api_job('decode', 'quick', 2), {'crate_dir': '', 'inject': [YR, KC, KT, KH], 'harnesses': hs}]}
reg('C16', plan=plan_c16, level='proof', min_obligations=3000,
    title='The neutral axis and the black/white anchors survive every stage',
    technique='Kani bit-precise: anchors of the code<->float maps (all depths/ranges/storage), R=G=B for every luma value through the 7 real decode matrices, HSL grey, curve anchors, white->white for all primaries; Verus exact: encode rows sum to (1,0,0), opsin rows sum to 1 with equal biases',
    text='Complete bit-precise proof (Kani): chroma code 2^(n-1) -> 0.0 exactly, black code -> 0.0 exactly, white code within 1e-6 of 1 for every depth 8..16, range, storage; for each of the 7 matrices and EVERY f32 luma in [0,1] neutral chroma decodes to R=G=B '
         'with spread <= 5e-7; grey -> HSL (0,0,g) exactly; f(0) within 1e-6 of 0 and f(1) within budget of 1 for the 12 powf-based curves; white -> white within 1e-5 for every primaries conversion. Exact-real proof (Verus): luma row sums to 1 and chroma rows to 0 '
         'for every Kr,Kb; opsin rows sum to 1 with equal biases, so grey gives X=0, Y=B and black (0,0,0) under an ideal cube root. The XYB grey clauses under f32 rounding (|X|<=1e-6) and the log/HLG curve anchors are not decided.',
    note=BITPRECISE + '; ' + EXACT + '. ' + TOOLS, assumptions=[BITPRECISE, EXACT],
    not_decided=['XYB grey/black clauses under f32 rounding (depend on cbrtf)', 'anchors of HLG (std ln/sqrt) and of the log curves (excluded by the statement)'], design_ref='DESIGN.md §5 C16')

# ------------------------------------------------------------------------------------------- C10 (bounded only)
def plan_c10(tier, seed):
    hs = [H(f'grid10_{c}', bounded='10-bit code grid x = c/1023, c = 0..1023 (all 1024 points symbolic)', domain='c in 0..=1023', timeout=1500,
            desc='|to_gamma(to_linear(x)) - x| < 2.5e-4 through the real scalar pair') for c in ['bt1886', 'bt470m', 'bt470bg', 'srgb', 'xvycc']]
    if tier == 'thorough':   # PQ (8 powf per round trip) did not finish in 25 min: thorough only, under a per-harness timeout, never an alarm on timeout
        hs.append(H('grid10_pq', bounded='optional: 10-bit code grid, PQ; per-harness timeout', domain='c in 0..=1023', timeout=3600, desc='PQ round trip < 5.7e-4'))
    hs += [h for h in curve_point_harnesses(tier, pq=(tier == 'thorough')) if h.name not in ('curve_points_linear', 'curve_points_pq_two_evaluations')]
    return {'verus': [('u_curves', {}), ('u_dispatch', {})], 'kani': [{'crate_dir': '', 'inject': [KT, KCP], 'harnesses': hs, 'timeout': 3000}]}
reg('C10', plan=plan_c10, level='model_checking', min_obligations=0,
    title='Gamma->linear->gamma on the 10-bit grid (bounded stand-in; nothing counted as proved)',
    technique='bounded Kani/CBMC: the real scalar curve pair composed on every point of the 10-bit code grid (bit-precise); plus a Verus exact-real lemma: with an ideal power function the pure power-law pairs compose to the identity for every x >= 0',
    text='BOUNDED stand-in, not a proof of the property: for the curve families built on the repo\'s own powf (BT.1886 family, BT.470M, BT.470BG, sRGB, xvYCC; PQ only in the thorough tier under a timeout) every 10-bit grid value x = c/1023 passes through the real to_linear then to_gamma scalars '
         'and returns within 2.5e-4 (PQ: 5.7e-4). The statement quantifies over all f32 in [0,1]; values between grid points, HLG and the log curves (std ln/log10, which CBMC over-approximates) and Linear (identity, proved under C03) are outside this check.',
    note='bounded: 1024 grid points per curve; ' + BITPRECISE + '. ' + TOOLS,
    assumptions=[BITPRECISE, 'grid only: not a proof for all f32 in [0,1]'],
    not_decided=['all f32 in [0,1] between grid points', 'HLG, Log100, Log316 (CBMC libm models imprecise)'], design_ref='DESIGN.md §5 C10')
KY = ('src/yuv.rs', 'k_yuv.rs', 'verif_kani_yuv')
