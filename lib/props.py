"""Registry: property id -> plan (which units / harnesses decide it), level, notes."""
from kani_run import Harness as H

PROPS = {}
NOT_APPLICABLE = {
    'C09': 'six-stage numeric error budget dominated by polynomial-vs-transcendental approximation error of fast powf/expf/cbrtf; '
           'no contract expressible to Verus (floats opaque / exact-real has zero error) or dischargeable by CBMC (three symbolic codes through ~150 float ops) decides it; '
           'its structural halves are decided under C05, C06, C08, C11, C15',
    'C20': 'Cargo feature forwarding and target-feature selection are build-system facts, not contracts on functions; the libm branch is an intrinsic neither verifier models precisely',
}

EXACT = 'E2: machine arithmetic treated as mathematical (f32/f64 -> exact reals; IEEE rounding, literal rounding, NaN/inf/overflow dropped)'
TOOLS = 'Verus 0.2026.09.13 + Z3 4.16; Kani 0.68 + CBMC 6.11 + CaDiCaL and their models of Rust/MIR and IEEE-754'

def reg(pid, **kw):
    PROPS[pid] = kw

# ------------------------------------------------------------------------------------------- C19
def plan_c19(tier, seed):
    return {'verus': [('u_matrix', {})]}
reg('C19', plan=plan_c19, level='proof', min_obligations=60,
    title='3x3 matrix/vector algebra agrees with its mathematical definition',
    technique='Verus contracts on the real generic matrix.rs for every exact field T + generated polynomial lemmas (A*inv(A)=I)',
    text='Unbounded proof: every function of yuvxyb-math/src/matrix.rs (verbatim, generic) carries a postcondition equating it with the '
         'mathematical product/transpose/cross/dot/inverse over the reals, for EVERY T whose operators are exact field operations '
         '(one proof covers the f32 and f64 instantiations); lemma_inverse proves A*inv(A)=inv(A)*A=I for every matrix with det != 0.',
    note=EXACT + '; the 1e-5/1e-4 tolerances of the statement are assumed to absorb f32/f64 rounding (conditioning argument, not machine-checked). ' + TOOLS,
    assumptions=[EXACT, 'T: Exact axioms (operators are the real field operations); Fx/Fx64 implement them by definition (ghost reals), no axiom admitted',
                 'rounding of f32/f64 stays inside the stated tolerances (not checked)'],
    not_decided=['f32/f64 rounding error bounds (1e-5*max(1,|exact|), 1e-4 for inverse)'],
    design_ref='DESIGN.md §5 C19')
