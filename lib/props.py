"""Registry: property id -> plan (which units / harnesses decide it), level, notes."""
from kani_run import Harness as H

PROPS = {}
NOT_APPLICABLE = {
    'C09': 'six-stage numeric error budget dominated by polynomial-vs-transcendental approximation error of fast powf/expf/cbrtf; '
           'no contract expressible to Verus (floats opaque / exact-real has zero error) or dischargeable by CBMC (three symbolic codes through ~150 float ops) decides it; '
           'its structural halves are decided under C05, C06, C08, C11, C15',
    'C20': 'Cargo feature forwarding and target-feature selection are build-system facts, not contracts on functions; the libm branch is an intrinsic neither verifier models precisely',
}

EXACT = 'E2: machine arithmetic treated as mathematical (f32/f64 -> exact reals; IEEE rounding, literal rounding, NaN/inf/overflow dropped)'
TOOLS = 'Verus 0.2026.09.13 + Z3 4.16; Kani 0.68 + CBMC 6.11 + CaDiCaL and their models of Rust/MIR and IEEE-754'

def reg(pid, **kw):
    PROPS[pid] = kw

# ------------------------------------------------------------------------------------------- C19
def plan_c19(tier, seed):
    return {'verus': [('u_matrix', {})]}
reg('C19', plan=plan_c19, level='proof', min_obligations=60,
    title='3x3 matrix/vector algebra agrees with its mathematical definition',
    technique='Verus contracts on the real generic matrix.rs for every exact field T + generated polynomial lemmas (A*inv(A)=I)',
    text='Unbounded proof: every function of yuvxyb-math/src/matrix.rs (verbatim, generic) carries a postcondition equating it with the '
         'mathematical product/transpose/cross/dot/inverse over the reals, for EVERY T whose operators are exact field operations '
         '(one proof covers the f32 and f64 instantiations); lemma_inverse proves A*inv(A)=inv(A)*A=I for every matrix with det != 0.',
    note=EXACT + '; the 1e-5/1e-4 tolerances of the statement are assumed to absorb f32/f64 rounding (conditioning argument, not machine-checked). ' + TOOLS,
    assumptions=[EXACT, 'T: Exact axioms (operators are the real field operations); Fx/Fx64 implement them by definition (ghost reals), no axiom admitted',
                 'rounding of f32/f64 stays inside the stated tolerances (not checked)'],
    not_decided=['f32/f64 rounding error bounds (1e-5*max(1,|exact|), 1e-4 for inverse)'],
    design_ref='DESIGN.md §5 C19')

# ------------------------------------------------------------------------------------------- C18
MATH_INJECT = [('yuvxyb-math/src/pow_exp.rs', 'k_pow_exp.rs', 'verif_kani_pow_exp'),
               ('yuvxyb-math/src/cbrtf.rs', 'k_cbrtf.rs', 'verif_kani_cbrtf')]
def math_totality_harnesses():
    return [H('exp2_total', domain='x: all 2^32 f32 bit patterns', desc='no value reaches to_int_unchecked non-finite/out of range; no overflow/shift trap',
              miri=('yuvxyb-math', 'yuvxyb_math::powf(2.0, f(v0))')),
            H('log2_total', domain='x: all f32'),
            H('powf_total', domain='(x,y): all f32 x f32', miri=('yuvxyb-math', 'yuvxyb_math::powf(f(v0), f(v1))')),
            H('expf_total', domain='x: all f32', miri=('yuvxyb-math', 'yuvxyb_math::expf(f(v0))')),
            H('cbrtf_total', domain='x: all f32')]
def plan_c18(tier, seed):
    hs = math_totality_harnesses() + [
        H('expf_saturates_high', domain='x in [89, 1e38]', desc='expf(x) == +inf'),
        H('expf_saturates_low', domain='x in [-1e38, -88]', desc='expf(x) == 0'),
        H('cbrtf_seed_is_odd', domain='x: all non-NaN f32', desc='bit-trick seed of -x is the negated seed of x'),
    ]
    exps = ['127', '120', '1', '254'] if tier == 'thorough' else []
    for e in exps:
        hs.append(H(f'cbrtf_odd_exp_{e}', bounded=f'optional: exponent fixed to {e}, 2^23 mantissas symbolic', timeout=900,
                    domain=f'x = 2^({e}-127) * 1.m, all m', desc='cbrtf(-x) == -cbrtf(x) bit for bit'))
    return {'kani': [{'crate_dir': 'yuvxyb-math', 'inject': MATH_INJECT, 'harnesses': hs, 'timeout': 2400}]}
reg('C18', plan=plan_c18, level='proof', min_obligations=30,
    title='fast math helpers: totality and saturation (accuracy clauses not decided)',
    technique='Kani/CBMC loop-free harnesses over the full f32 domain of the real exp2/log2/powf/expf/cbrtf (bit-precise, complete)',
    text='Complete bit-precise proof (no loop, full symbolic f32 inputs) that cbrtf, powf, expf and their private helpers are total: no panic, '
         'no arithmetic/shift overflow, and the operand of the unchecked float->int conversion in exp2 is always finite and in range; '
         'expf(x)=+inf on [89,1e38] and 0 on [-1e38,-88]. cbrtf oddness: seed symmetry proved for all inputs, full oddness only bounded per exponent. '
         'The accuracy clauses (1 ulp, 2.5e-4+8e-6|y|, 1e-5) are NOT decided: no oracle for pow/exp/cbrt inside either verifier.',
    note='Trusted: ' + TOOLS + '. Not decided: accuracy of the polynomial approximations against the transcendental functions; cbrtf oddness beyond the bounded exponents.',
    assumptions=['CBMC float model is IEEE-754 binary32/binary64 round-to-nearest-even', 'cfg!(target_feature="fma") is false in the Kani build (unfused branch verified)'],
    not_decided=['cbrtf within 1 ulp', 'powf relative error 2.5e-4+8e-6|y|', 'expf relative error 1e-5', 'cbrtf oddness for all exponents (bounded only)'],
    design_ref='DESIGN.md §5 C18')
