"""Mechanical injection of Verus contract text into extracted Rust items."""
import re
from rsx import RustSrc, split_fn, name_return, AnchorLost, _mask

class C:
    """Contract for one fn.  All strings are Verus syntax, inserted verbatim; the fn body text is
    never edited except for the listed mechanical `rewrites` (regex, repl, description) and the
    `inserts` (anchor substring -> text placed before/after the anchored line)."""
    def __init__(self, requires=(), ensures=(), rname='r', head='', inserts=(), rewrites=(),
                 attrs=(), decreases=None, strip_const=False, external_body=False, drop_where=False):
        self.requires = list(requires); self.ensures = list(ensures); self.rname = rname
        self.head = head; self.inserts = list(inserts); self.rewrites = list(rewrites)
        self.attrs = list(attrs); self.decreases = decreases; self.strip_const = strip_const
        self.external_body = external_body

def strip_attrs_and_docs(text):
    """Remove #[...] attribute lines and /// doc lines (they carry no semantics Verus uses)."""
    out = []
    for ln in text.split('\n'):
        if re.match(r'\s*(///|//!)', ln): continue
        if re.match(r'\s*#!?\[[^\]]*\]\s*$', ln): continue
        out.append(ln)
    return '\n'.join(out)

def apply_contract(fn_text, c, log=None):
    fn_text = strip_attrs_and_docs(fn_text)
    header, body = split_fn(fn_text)
    if c.strip_const:
        header = re.sub(r'\bconst\s+fn\b', 'fn', header)
    header = name_return(header, c.rname)
    spec = ''
    if c.requires:
        spec += '\n    requires\n' + ''.join(f'        {r},\n' for r in c.requires)
    if c.ensures:
        spec += '\n    ensures\n' + ''.join(f'        {e},\n' for e in c.ensures)
    if c.decreases:
        spec += f'\n    decreases {c.decreases},\n'
    for rw in c.rewrites:
        rx, repl, desc = rw[0], rw[1], rw[2]
        body, n = re.subn(rx, repl, body)
        if n == 0:
            if len(rw) > 3 and rw[3] == 'optional': continue
            raise AnchorLost(f'rewrite anchor lost: {desc}')
        if log is not None: log.append(f'{desc} (x{n})')
    for (anchor, where, text) in c.inserts:
        lines = body.split('\n')
        if anchor.startswith('re:'):
            hits = [i for i, ln in enumerate(lines) if re.search(anchor[3:], ln)]
        else:
            hits = [i for i, ln in enumerate(lines) if anchor in ln]
        if len(hits) != 1:
            raise AnchorLost(f'insert anchor {anchor!r}: {len(hits)} hits')
        i = hits[0]
        if where == 'before': lines[i:i] = [text]
        elif where == 'after': lines[i+1:i+1] = [text]
        elif where.startswith('after+'):
            k = int(where[6:]); lines[i+1+k:i+1+k] = [text]
        elif where == 'loop':   # put invariant text between the loop header and its '{'
            ln = lines[i]
            k = ln.rstrip().rfind('{')
            if k < 0: raise AnchorLost(f'loop anchor {anchor!r} has no brace on the line')
            lines[i] = ln[:k] + '\n' + text + '\n' + ln[k:]
        else: raise ValueError(where)
        body = '\n'.join(lines)
    if c.head:
        body = '{\n' + c.head + '\n' + body[1:]
    attrs = ''.join(a + '\n' for a in c.attrs)
    if c.external_body:
        attrs += '#[verifier::external_body]\n'
    return attrs + header.rstrip() + ' ' + spec + body

def mirror(fn_text, name, log=None):
    """R-mirror: for a pure, loop-free helper the contract is generated, not hand-written: the fn's own text is copied as
    `open spec fn <name>__spec(<same params>) -> <same type> { <same body> }` and the exec fn gets `ensures r == <name>__spec(<params>)`.
    The helper is then transparent to its callers, whose postconditions (written from the property statement) are what decide;
    a refactoring of the helper - including of its signature - neither loses an anchor nor needs a new contract.
    Returns (spec_text, contracted_exec_text)."""
    t = strip_attrs_and_docs(fn_text)
    header, body = split_fn(t)
    header = re.sub(r'\bconst\s+fn\b', 'fn', header)
    m = re.search(r'fn\s+%s\s*\((.*)\)\s*->' % re.escape(name), header, re.S)
    if not m: raise AnchorLost(f'{name}: signature not of the form fn {name}(..) -> T')
    params = [q.strip() for q in m.group(1).split(',') if q.strip()]
    names = []
    for q in params:
        mm = re.match(r'(?:mut\s+)?(\w+)\s*:', q)
        if not mm: raise AnchorLost(f'{name}: parameter pattern `{q}` not a plain identifier')
        names.append(mm.group(1))
    sh = re.sub(r'^\s*(pub(\([^)]*\))?\s+)?fn\s+%s' % re.escape(name), f'pub open spec fn {name}__spec', header.strip())
    spec = sh + ' ' + body + '\n'
    if log is not None: log.append(f'R-mirror: {name}: body copied as spec fn {name}__spec; contract `r == {name}__spec(..)` generated')
    return spec, apply_contract(fn_text, C(ensures=[f'r == {name}__spec({", ".join(names)})'], strip_const=True))

class Gen:
    """Assembles one single-file Verus crate and remembers, per generated fn, where it came from."""
    def __init__(self, name):
        self.name = name
        self.parts = []
        self.fn_src = {}        # verus fn path suffix -> "file:line"
        self.dropped = []       # human-readable list of what extraction dropped / rewrote
        self.assumed = []       # assumed contracts (external_body, axioms)
        self.under_contract = []  # list of dicts {fn, src, requires, ensures}
    def add(self, text):
        self.parts.append(text)
    def text(self):
        hdr = ('#![allow(unused)]\nuse vstd::prelude::*;\nuse std::ops::{Mul, Div, Neg, Add, Sub};\n'
               'use vstd::std_specs::ops::*;\nverus! {\n')
        return hdr + '\n'.join(self.parts) + '\n} // verus!\nfn main() {}\n'
