"""Run Kani harnesses on a scratch copy of /repo's working tree (function bodies byte-identical;
only `#[cfg(kani)] #[path=..] mod verif_kani_*;` lines and `#[cfg_attr(kani, kani::requires/ensures)]`
attribute lines are inserted)."""
import os, re, subprocess, time, shutil, json
from rsx import RustSrc, AnchorLost

KDIR = os.path.join(os.path.dirname(os.path.abspath(__file__)), '..', 'contracts', 'kani')

class Harness:
    def __init__(self, name, bounded=None, timeout=900, expect_cover=True, desc='', domain='', miri=None, fixed=False):
        """miri: optional (crate, rust_expr) — a public-API call reproducing the harness input, with the
        concrete values available as v0, v1, ... (u32 bit patterns / raw little-endian integers);
        used to replay UB-class counterexamples on the real code under Miri."""
        self.name = name; self.bounded = bounded; self.timeout = timeout
        self.desc = desc; self.domain = domain; self.miri = miri
        self.fixed = fixed   # input-free harness: on failure it is replayed natively as a unit test (no counterexample needed)

class HarnessResult:
    def __init__(self, name):
        self.name = name; self.status = 'undecided'   # ok | failed | undecided
        self.checks = 0; self.failed_checks = 0; self.failed_desc = []
        self.covers = (0, 0); self.time = 0.0; self.reason = ''
        self.nan_only = False

def make_scratch(repo, tag):
    base = '/var/tmp/yuvxyb-verif'
    os.makedirs(base, exist_ok=True)
    d = os.path.join(base, f'{tag}.{os.getpid()}')
    if os.path.exists(d): shutil.rmtree(d)
    subprocess.run(['rsync', '-a', '--exclude', 'target', '--exclude', '.git', repo.rstrip('/') + '/', d + '/'], check=True)
    lock = os.path.join(repo, 'Cargo.lock')
    if os.path.exists(lock):
        shutil.copy(lock, os.path.join(d, 'yuvxyb-math', 'Cargo.lock'))
    return d

def inject_module(scratch, rel_file, harness_file, modname):
    """Append a cfg(kani) child module declaration to rel_file, pointing at /verif/contracts/kani/<harness_file>."""
    p = os.path.join(scratch, rel_file)
    if not os.path.exists(p):
        raise AnchorLost(f'{rel_file} not found')
    # the harness file is COPIED next to the module (never referenced in /verif: playback writes into it)
    hd = os.path.join(scratch, '_verif_harness'); os.makedirs(hd, exist_ok=True)
    hp = os.path.join(hd, harness_file)
    shutil.copy(os.path.abspath(os.path.join(KDIR, harness_file)), hp)
    with open(p, 'a') as f:
        f.write(f'\n#[cfg(kani)]\n#[path = "{hp}"]\nmod {modname};\n')

def inject_attrs(scratch, rel_file, fn_name, attr_lines):
    """Insert attribute lines in front of `fn fn_name` (anchored by name)."""
    p = os.path.join(scratch, rel_file)
    src = RustSrc(p)
    s, e = src.find('fn', fn_name, keep_attrs=True)
    ls = src.text.rfind('\n', 0, s) + 1
    indent = src.text[ls:s] if src.text[ls:s].strip() == '' else ''
    ins = ''.join(f'{indent}{a}\n' for a in attr_lines)
    open(p, 'w').write(src.text[:ls] + ins + src.text[ls:])

# IEEE-defined, non-trapping behaviour that CBMC flags by default: NaN results, and the C library model of fmaf()
# calling feraiseexcept(FE_INVALID) for inf*0+c (floating-point exceptions are masked flags in Rust, never traps)
FAIL_IGNORE = re.compile(r'NaN on (addition|subtraction|multiplication|division)|arithmetic overflow on floating-point|floating-point exception')

def parse_terse(out, names):
    """Parse `--output-format=terse -j N` output.  Returns {harness_fullname: HarnessResult}."""
    res = {}
    cur = {}      # thread -> harness name
    blocks = {}   # harness -> text
    thread = None
    for ln in out.split('\n'):
        m = re.match(r'Thread (\d+): Checking harness (\S+?)\.\.\.', ln)
        if m:
            cur[m.group(1)] = m.group(2); blocks.setdefault(m.group(2), ''); thread = None
            continue
        m = re.match(r'Thread (\d+):\s*$', ln)
        if m:
            thread = m.group(1); continue
        m = re.match(r'Checking harness (\S+?)\.\.\.', ln)
        if m:
            cur['0'] = m.group(1); blocks.setdefault(m.group(1), ''); thread = '0'; continue
        if thread is not None and thread in cur:
            blocks[cur[thread]] += ln + '\n'
    for h, txt in blocks.items():
        r = HarnessResult(h)
        m = re.search(r'\*\* (\d+) of (\d+) failed', txt)
        if m:
            r.failed_checks, r.checks = int(m.group(1)), int(m.group(2))
        m = re.search(r'\*\* (\d+) of (\d+) cover properties satisfied', txt)
        if m: r.covers = (int(m.group(1)), int(m.group(2)))
        m = re.search(r'Verification Time: ([\d.]+)s', txt)
        if m: r.time = float(m.group(1))
        # the description of an assertion may itself contain line breaks (long `a && b && c` conditions are wrapped)
        fails = re.findall(r'Failed Checks: ((?:(?!Failed Checks:).)*?)\n\s*File: "(.*?)", line (\d+), in (\S+)', txt, re.S)
        r.failed_desc = [{'desc': ' '.join(d.split()), 'file': f, 'line': int(l), 'in': fn} for d, f, l, fn in fails]
        if 'VERIFICATION:- SUCCESSFUL' in txt: r.status = 'ok'
        elif 'VERIFICATION:- FAILED' in txt:
            real = [f for f in r.failed_desc if not FAIL_IGNORE.search(f['desc'])]
            if 'unwinding assertion' in txt and not [f for f in real if 'unwinding' not in f['desc']]:
                r.status = 'undecided'; r.reason = 'unwinding bound too small'
            elif r.failed_desc and not real:
                r.status = 'ok'; r.nan_only = True
            elif not r.failed_desc:
                r.status = 'undecided'; r.reason = 'FAILED without a failed-check list: ' + txt[-300:]
            else:
                r.status = 'failed'; r.failed_desc = real
        else:
            r.status = 'undecided'; r.reason = 'no verdict (timeout, OOM or CBMC error): ' + txt[-300:]
        res[h] = r
    return res

def full_names(inject, harnesses, scratch=None):
    """Resolve each harness to its fully qualified name (module path of the file it is injected into +
    injected module name) so that `--exact` can be used (substring matching would select extra harnesses)."""
    out = {}
    for (rel, hfile, modname) in inject:
        txt = open(os.path.join(scratch, '_verif_harness', hfile) if scratch else os.path.join(KDIR, hfile)).read()
        mp = re.sub(r'^(yuvxyb-math/)?src/', '', rel)[:-3].replace('/', '::')
        mp = '' if mp == 'lib' else mp
        for h in harnesses:
            if h.name not in out and re.search(r'\b%s\b' % re.escape(h.name), txt):
                out[h.name] = '::'.join(x for x in (mp, modname, h.name) if x)
    return out

def _run_group(scratch, crate_dir, harnesses, jobs, timeout, extra, harness_timeout=None, names=None):
    cwd = os.path.join(scratch, crate_dir)
    cmd = ['cargo', 'kani', '-Z', 'function-contracts', '-Z', 'stubbing', '--output-format=terse', '-j', str(jobs)]
    if names: cmd.append('--exact')
    if harness_timeout:
        cmd += ['-Z', 'unstable-options', '--harness-timeout', f'{int(harness_timeout)}s']
    for h in harnesses:
        cmd += ['--harness', (names or {}).get(h.name, h.name)]
    cmd += list(extra)
    env = dict(os.environ, CARGO_NET_OFFLINE='true', CARGO_TARGET_DIR=os.path.join(scratch, 'target-kani'))
    try:
        p = subprocess.run(['timeout', str(timeout)] + cmd, cwd=cwd, env=env, capture_output=True, text=True)
        out = p.stdout + '\n' + p.stderr
    except Exception as e:
        out = f'exception {e}'
    return ' '.join(cmd), out

def run_kani(scratch, crate_dir, harnesses, jobs=8, timeout=3600, extra=(), inject=()):
    """harnesses: list of Harness (names are matched as suffixes).  Proof harnesses run in one cargo-kani
    invocation; bounded/optional harnesses run in a second one under a per-harness timeout."""
    t0 = time.time()
    main = [h for h in harnesses if not (h.bounded and h.bounded.startswith('optional'))]
    opt = [h for h in harnesses if h.bounded and h.bounded.startswith('optional')]
    cmds, outs, parsed = [], [], {}
    names = full_names(inject, harnesses, scratch) if inject else None
    missing = [h.name for h in harnesses if names is not None and h.name not in names]
    if missing:
        raise AnchorLost('harness not found in injected files: ' + ', '.join(missing))
    for grp, ht in ((main, None), (opt, max([h.timeout for h in opt] or [0]))):
        if not grp: continue
        cmd, out = _run_group(scratch, crate_dir, grp, jobs, timeout, extra, ht, names)
        cmds.append(cmd); outs.append(out)
        parsed.update(parse_terse(out, [h.name for h in grp]))
    wall = time.time() - t0
    out = '\n'.join(outs)
    results = []
    for h in harnesses:
        hit = [r for n, r in parsed.items() if n == h.name or n.endswith('::' + h.name)]
        if hit:
            results.append(hit[0])
        else:
            r = HarnessResult(h.name); r.status = 'undecided'
            r.reason = 'harness produced no result (build error or timeout): ' + out[-1500:]
            results.append(r)
    return results, wall, ' ;; '.join(cmds), out

def concrete_playback(scratch, crate_dir, harness, harness_file, timeout=900):
    """Re-run one failing harness with `--concrete-playback=print`, take the generated unit test of the
    first non-cover failing check, append it to the scratch copy of the harness file and execute it natively
    (`cargo kani playback`): the harness body then runs the REAL functions on the concrete input.
    Returns (test_source, native_output, reproduced: bool|None)."""
    cwd = os.path.join(scratch, crate_dir)
    env = dict(os.environ, CARGO_NET_OFFLINE='true', CARGO_TARGET_DIR=os.path.join(scratch, 'target-kani'))
    cmd = ['timeout', str(timeout), 'cargo', 'kani', '-Z', 'function-contracts', '-Z', 'stubbing', '-Z', 'concrete-playback',
           '--concrete-playback=print', '--exact', '--harness', harness]
    p = subprocess.run(cmd, cwd=cwd, env=env, capture_output=True, text=True)
    out = p.stdout + p.stderr
    tests = re.findall(r'```\n(/// Test generated for harness.*?)\n```', out, re.S)
    tests = [t for t in tests if not re.search(r'Check for `cover`', t)]
    if not tests:
        return '', out[-1500:], None
    test = tests[0]
    name = re.search(r'fn (kani_concrete_playback_\w+)', test).group(1)
    hp = os.path.join(scratch, '_verif_harness', harness_file)
    with open(hp, 'a') as f:
        f.write('\n' + test + '\n')
    cmd2 = ['timeout', str(timeout), 'cargo', 'kani', 'playback', '-Z', 'concrete-playback', '--', name]
    p2 = subprocess.run(cmd2, cwd=cwd, env=env, capture_output=True, text=True)
    native = (p2.stdout + p2.stderr)[-3000:]
    reproduced = None
    if 'test result: FAILED' in native or 'panicked at' in native or 'error: test failed' in native: reproduced = True
    elif 'test result: ok' in native: reproduced = False
    return test, native, reproduced

def native_fixed_replay(scratch, crate_dir, rel_file, harness_file, name, timeout=900):
    """Replay an INPUT-FREE harness natively on the scratch copy of the real code: the harness file is copied with its
    `#[kani::..]` attributes stripped, `#[test]` put on the one harness and a no-op `kani` shim, then `cargo test` runs it.
    Returns (test_source, native_output, reproduced)."""
    src = open(os.path.join(scratch, '_verif_harness', harness_file)).read()
    src = re.sub(r'#\[kani::[^\]]*\][ \t]*\n?', '', src)
    src, n = re.subn(r'(?m)^[ \t]*fn %s\(\)' % re.escape(name), '#[test]\nfn %s()' % name, src)
    if n != 1: return '', 'harness fn not found for native replay', None
    shim = ('#![allow(unused, dead_code)]\nmod kani { pub fn any<T>() -> T { panic!("symbolic input reached in native replay") } pub fn assume(_: bool) {}\n'
            '  macro_rules! cover { ($($t:tt)*) => {} } pub(crate) use cover; }\n')
    nf = os.path.join(scratch, '_verif_harness', f'native_{name}_' + harness_file)
    open(nf, 'w').write(shim + src)
    with open(os.path.join(scratch, rel_file), 'a') as f:
        f.write(f'\n#[cfg(all(test, not(kani)))]\n#[path = "{nf}"]\nmod verif_native_replay_{name};\n')
    env = dict(os.environ, CARGO_NET_OFFLINE='true', CARGO_TARGET_DIR=os.path.join(scratch, 'target-native'))
    p = subprocess.run(['timeout', str(timeout), 'cargo', 'test', '--offline', '--lib', name], cwd=os.path.join(scratch, crate_dir), env=env, capture_output=True, text=True)
    native = p.stdout[-2500:] + '\n--- stderr ---\n' + p.stderr[-1200:]
    reproduced = None
    if 'test result: FAILED' in native or 'panicked at' in native or 'error: test failed' in native: reproduced = True
    elif re.search(r'test result: ok\. [1-9]', native): reproduced = False
    body = re.search(r'(?ms)^#\[test\]\nfn %s\(\).*?$' % re.escape(name), src)
    return (body.group(0) if body else name), native, reproduced

def miri_replay(scratch, test_src, crate, expr, timeout=600):
    """Run `expr` (public API of the scratch copy of the real crate) under Miri with the concrete values of
    the Kani counterexample.  Returns (output, ub_detected)."""
    vals = []
    for m in re.finditer(r'vec!\[([\d, ]+)\]', test_src):
        bs = [int(x) for x in m.group(1).split(',') if x.strip()]
        vals.append(int.from_bytes(bytes(bs), 'little'))
    d = os.path.join(scratch, '_verif_replay')
    shutil.rmtree(d, ignore_errors=True); os.makedirs(os.path.join(d, 'src'))
    dep = {'yuvxyb-math': 'yuvxyb-math = { path = "../yuvxyb-math" }', 'yuvxyb': 'yuvxyb = { path = ".." }'}[crate]
    open(os.path.join(d, 'Cargo.toml'), 'w').write(
        f'[package]\nname = "verif_replay"\nversion = "0.0.0"\nedition = "2021"\n[dependencies]\n{dep}\n[workspace]\n')
    lets = ''.join(f'    let v{i}: u64 = {v};\n' for i, v in enumerate(vals))
    open(os.path.join(d, 'src', 'main.rs'), 'w').write(
        '#![allow(unused)]\nfn f(v: u64) -> f32 { f32::from_bits(v as u32) }\nfn main() {\n' + lets +
        f'    let r = {expr};\n    println!("replay result: {{:?}}", r);\n}}\n')
    lock = os.path.join(scratch, 'Cargo.lock')
    if os.path.exists(lock) and crate == 'yuvxyb':
        shutil.copy(lock, os.path.join(d, 'Cargo.lock'))
    env = dict(os.environ, CARGO_NET_OFFLINE='true', CARGO_TARGET_DIR=os.path.join(scratch, 'target-miri'))
    p = subprocess.run(['timeout', str(timeout), 'cargo', '+nightly', 'miri', 'run', '--offline'], cwd=d, env=env,
                       capture_output=True, text=True)
    out = (p.stdout + p.stderr)[-2500:]
    return out, ('Undefined Behavior' in out)

def append_harness(scratch, harness_file, text):
    with open(os.path.join(scratch, '_verif_harness', harness_file), 'a') as f:
        f.write('\n' + text + '\n')
