"""Run Kani harnesses on a scratch copy of /repo's working tree (function bodies byte-identical;
only `#[cfg(kani)] #[path=..] mod verif_kani_*;` lines and `#[cfg_attr(kani, kani::requires/ensures)]`
attribute lines are inserted)."""
import os, re, subprocess, time, shutil, json
from rsx import RustSrc, AnchorLost

KDIR = os.path.join(os.path.dirname(os.path.abspath(__file__)), '..', 'contracts', 'kani')

class Harness:
    def __init__(self, name, bounded=None, timeout=900, expect_cover=True, desc='', domain=''):
        self.name = name; self.bounded = bounded; self.timeout = timeout
        self.desc = desc; self.domain = domain

class HarnessResult:
    def __init__(self, name):
        self.name = name; self.status = 'undecided'   # ok | failed | undecided
        self.checks = 0; self.failed_checks = 0; self.failed_desc = []
        self.covers = (0, 0); self.time = 0.0; self.reason = ''
        self.nan_only = False

def make_scratch(repo, tag):
    base = '/var/tmp/yuvxyb-verif'
    os.makedirs(base, exist_ok=True)
    d = os.path.join(base, f'{tag}.{os.getpid()}')
    if os.path.exists(d): shutil.rmtree(d)
    subprocess.run(['rsync', '-a', '--exclude', 'target', '--exclude', '.git', repo.rstrip('/') + '/', d + '/'], check=True)
    lock = os.path.join(repo, 'Cargo.lock')
    if os.path.exists(lock):
        shutil.copy(lock, os.path.join(d, 'yuvxyb-math', 'Cargo.lock'))
    return d

def inject_module(scratch, rel_file, harness_file, modname):
    """Append a cfg(kani) child module declaration to rel_file, pointing at /verif/contracts/kani/<harness_file>."""
    p = os.path.join(scratch, rel_file)
    if not os.path.exists(p):
        raise AnchorLost(f'{rel_file} not found')
    hp = os.path.abspath(os.path.join(KDIR, harness_file))
    with open(p, 'a') as f:
        f.write(f'\n#[cfg(kani)]\n#[path = "{hp}"]\nmod {modname};\n')

def inject_attrs(scratch, rel_file, fn_name, attr_lines):
    """Insert attribute lines in front of `fn fn_name` (anchored by name)."""
    p = os.path.join(scratch, rel_file)
    src = RustSrc(p)
    s, e = src.find('fn', fn_name, keep_attrs=True)
    ls = src.text.rfind('\n', 0, s) + 1
    indent = src.text[ls:s] if src.text[ls:s].strip() == '' else ''
    ins = ''.join(f'{indent}{a}\n' for a in attr_lines)
    open(p, 'w').write(src.text[:ls] + ins + src.text[ls:])

FAIL_IGNORE = re.compile(r'NaN on (addition|subtraction|multiplication|division)|arithmetic overflow on floating-point')

def parse_terse(out, names):
    """Parse `--output-format=terse -j N` output.  Returns {harness_fullname: HarnessResult}."""
    res = {}
    cur = {}      # thread -> harness name
    blocks = {}   # harness -> text
    thread = None
    for ln in out.split('\n'):
        m = re.match(r'Thread (\d+): Checking harness (\S+?)\.\.\.', ln)
        if m:
            cur[m.group(1)] = m.group(2); blocks.setdefault(m.group(2), ''); thread = None
            continue
        m = re.match(r'Thread (\d+):\s*$', ln)
        if m:
            thread = m.group(1); continue
        m = re.match(r'Checking harness (\S+?)\.\.\.', ln)
        if m:
            cur['0'] = m.group(1); blocks.setdefault(m.group(1), ''); thread = '0'; continue
        if thread is not None and thread in cur:
            blocks[cur[thread]] += ln + '\n'
    for h, txt in blocks.items():
        r = HarnessResult(h)
        m = re.search(r'\*\* (\d+) of (\d+) failed', txt)
        if m:
            r.failed_checks, r.checks = int(m.group(1)), int(m.group(2))
        m = re.search(r'\*\* (\d+) of (\d+) cover properties satisfied', txt)
        if m: r.covers = (int(m.group(1)), int(m.group(2)))
        m = re.search(r'Verification Time: ([\d.]+)s', txt)
        if m: r.time = float(m.group(1))
        fails = re.findall(r'Failed Checks: (.*?)\n\s*File: "(.*?)", line (\d+), in (\S+)', txt)
        r.failed_desc = [{'desc': d, 'file': f, 'line': int(l), 'in': fn} for d, f, l, fn in fails]
        if 'VERIFICATION:- SUCCESSFUL' in txt: r.status = 'ok'
        elif 'VERIFICATION:- FAILED' in txt:
            real = [f for f in r.failed_desc if not FAIL_IGNORE.search(f['desc'])]
            if 'unwinding assertion' in txt and not [f for f in real if 'unwinding' not in f['desc']]:
                r.status = 'undecided'; r.reason = 'unwinding bound too small'
            elif r.failed_desc and not real:
                r.status = 'ok'; r.nan_only = True
            elif not r.failed_desc:
                r.status = 'undecided'; r.reason = 'FAILED without a failed-check list: ' + txt[-300:]
            else:
                r.status = 'failed'; r.failed_desc = real
        else:
            r.status = 'undecided'; r.reason = 'no verdict (timeout, OOM or CBMC error): ' + txt[-300:]
        res[h] = r
    return res

def run_kani(scratch, crate_dir, harnesses, jobs=8, timeout=3600, extra=()):
    """harnesses: list of Harness (names are matched as suffixes).  One cargo-kani invocation."""
    cwd = os.path.join(scratch, crate_dir)
    cmd = ['cargo', 'kani', '-Z', 'function-contracts', '-Z', 'stubbing', '--output-format=terse', '-j', str(jobs)]
    for h in harnesses:
        cmd += ['--harness', h.name]
    cmd += list(extra)
    env = dict(os.environ, CARGO_NET_OFFLINE='true', CARGO_TARGET_DIR=os.path.join(scratch, 'target-kani'))
    t0 = time.time()
    try:
        p = subprocess.run(['timeout', str(timeout)] + cmd, cwd=cwd, env=env, capture_output=True, text=True)
        out = p.stdout + '\n' + p.stderr
    except Exception as e:
        out = f'exception {e}'
    wall = time.time() - t0
    parsed = parse_terse(out, [h.name for h in harnesses])
    results = []
    for h in harnesses:
        hit = [r for n, r in parsed.items() if n == h.name or n.endswith('::' + h.name)]
        if hit:
            results.append(hit[0])
        else:
            r = HarnessResult(h.name); r.status = 'undecided'
            r.reason = 'harness produced no result (build error or timeout): ' + out[-1500:]
            results.append(r)
    return results, wall, ' '.join(cmd), out

def concrete_playback(scratch, crate_dir, harness, timeout=900):
    """Re-run one failing harness with concrete playback; returns (values_text, native_replay_text)."""
    cwd = os.path.join(scratch, crate_dir)
    env = dict(os.environ, CARGO_NET_OFFLINE='true', CARGO_TARGET_DIR=os.path.join(scratch, 'target-kani'))
    cmd = ['timeout', str(timeout), 'cargo', 'kani', '-Z', 'function-contracts', '-Z', 'stubbing', '-Z', 'concrete-playback',
           '--concrete-playback=inplace', '--harness', harness]
    p = subprocess.run(cmd, cwd=cwd, env=env, capture_output=True, text=True)
    out = p.stdout + p.stderr
    # find the generated test
    test_name, test_src = None, ''
    for root, _, files in os.walk(os.path.join(scratch)):
        if 'target' in root: continue
        for f in files:
            if f.endswith('.rs'):
                t = open(os.path.join(root, f)).read()
                m = re.search(r'(#\[test\]\s*fn (kani_concrete_playback_\w+)\(\) \{.*?\n\})', t, re.S)
                if m:
                    test_name, test_src = m.group(2), m.group(1)
    native = ''
    if test_name:
        cmd2 = ['timeout', str(timeout), 'cargo', 'kani', 'playback', '-Z', 'concrete-playback', '--', test_name]
        p2 = subprocess.run(cmd2, cwd=cwd, env=env, capture_output=True, text=True)
        native = (p2.stdout + p2.stderr)[-3000:]
    return test_src, native, out[-2000:]
