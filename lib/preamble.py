import os
HERE = os.path.dirname(os.path.abspath(__file__))
CDIR = os.path.join(HERE, '..', 'contracts', 'verus')
def read(name):
    return open(os.path.join(CDIR, name)).read()
def fx(fx_name, float_name):
    return read('fx.rs.tmpl').replace('@FX@', fx_name).replace('@FLOAT@', float_name)
def lit_rewrite(text, default='Fx'):
    """decimal float literal `d.ddd` (optionally with _ separators and f32/f64 suffix) -> Fx::lit(n, 10^k).
    Applied only inside E2 units after the f32->Fx substitution."""
    import re
    def sub(m):
        s = m.group(0)
        suffix = 'Fx64' if s.endswith('f64') else ('Fx' if s.endswith('f32') else default)
        s = re.sub(r'_?f(32|64)$', '', s).replace('_', '')
        ip, fp = s.split('.')
        return f'{suffix}::lit({int(ip + fp)}, {10 ** len(fp)})'
    return re.sub(r'(?<![\w.])\d[\d_]*\.\d[\d_]*(_?f32|_?f64)?(?![\w])', sub, text)
