import os
HERE = os.path.dirname(os.path.abspath(__file__))
CDIR = os.path.join(HERE, '..', 'contracts', 'verus')
def read(name):
    return open(os.path.join(CDIR, name)).read()
def fx(fx_name, float_name):
    return read('fx.rs.tmpl').replace('@FX@', fx_name).replace('@FLOAT@', float_name)
def lit_rewrite(text, default='Fx'):
    """float literal (decimal `d.ddd`, optional exponent `e-3`, `_` separators, optional f32/f64 suffix; also bare `1e-3`)
    -> `Fx::lit(n, d)` with n/d the exact rational the literal spells.  Applied only inside E2 units after f32 -> Fx."""
    import re
    from fractions import Fraction
    def sub(m):
        s = m.group(0)
        suffix = 'Fx64' if s.endswith('f64') else ('Fx' if s.endswith('f32') else default)
        s = re.sub(r'_?f(32|64)$', '', s).replace('_', '')
        mant, _, ex = s.lower().partition('e')
        ip, _, fp = mant.partition('.')
        q = Fraction(int(ip + fp), 10 ** len(fp)) * (Fraction(10) ** int(ex) if ex else 1)
        # keep the denominator a power of ten (what the literal spells)
        d = 1
        while (q * d).denominator != 1: d *= 10
        return f'{suffix}::lit({int(q * d)}, {d})'
    return re.sub(r'(?<![\w.])(?:\d[\d_]*\.\d[\d_]*(?:[eE][+-]?\d+)?|\d[\d_]*[eE][+-]?\d+)(_?f32|_?f64)?(?![\w])', sub, text)
