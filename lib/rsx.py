"""Minimal Rust source scanner used for *mechanical* extraction of items from /repo.

It does not parse Rust; it tokenises just enough (comments, string/char literals, raw strings,
lifetimes) to find an item by kind+name and to brace-match its extent.  Items are always located
by anchor (kind + name [+ enclosing impl header]), never by line number.
"""
import re

class AnchorLost(Exception):
    pass

def _mask(text):
    """Return a same-length string where comments and string/char literal *contents* are replaced by
    spaces (newlines kept), so that regex/brace matching on the result is safe."""
    out = list(text)
    i, n = 0, len(text)
    def blank(a, b):
        for k in range(a, b):
            if out[k] != '\n':
                out[k] = ' '
    while i < n:
        c = text[i]
        if text.startswith('//', i):
            j = text.find('\n', i)
            if j < 0: j = n
            blank(i, j); i = j
        elif text.startswith('/*', i):
            depth, j = 1, i + 2
            while j < n and depth:
                if text.startswith('/*', j): depth += 1; j += 2
                elif text.startswith('*/', j): depth -= 1; j += 2
                else: j += 1
            blank(i, j); i = j
        elif c == '"':
            j = i + 1
            while j < n and text[j] != '"':
                j += 2 if text[j] == '\\' else 1
            blank(i + 1, j); i = j + 1
        elif c == 'r' and re.match(r'r#*"', text[i:i+8]) and (i == 0 or not (text[i-1].isalnum() or text[i-1] == '_')):
            m = re.match(r'r(#*)"', text[i:])
            close = '"' + m.group(1)
            j = text.find(close, i + len(m.group(0)))
            if j < 0: j = n
            blank(i + len(m.group(0)), j); i = j + len(close)
        elif c == "'":
            # char literal or lifetime
            m = re.match(r"'(\\.[^']*|[^'\\])'", text[i:i+12])
            if m:
                blank(i + 1, i + len(m.group(0)) - 1); i += len(m.group(0))
            else:
                i += 1
        else:
            i += 1
    return ''.join(out)

class RustSrc:
    def __init__(self, path, text=None):
        self.path = path
        self.text = text if text is not None else open(path).read()
        self.mask = _mask(self.text)

    def line_of(self, pos):
        return self.text.count('\n', 0, pos) + 1

    def _match_brace(self, open_pos):
        depth = 0
        m = self.mask
        for k in range(open_pos, len(m)):
            ch = m[k]
            if ch == '{': depth += 1
            elif ch == '}':
                depth -= 1
                if depth == 0:
                    return k
        raise AnchorLost(f'{self.path}: unbalanced braces from offset {open_pos}')

    def _item_end(self, start):
        """From the start of an item header, find its end: matching '}' of first '{' at paren depth 0,
        or ';' at depth 0, whichever comes first."""
        m = self.mask
        par = 0
        k = start
        while k < len(m):
            ch = m[k]
            if ch in '([': par += 1
            elif ch in ')]': par -= 1
            elif ch == ';' and par == 0:
                return k + 1
            elif ch == '{' and par == 0:
                return self._match_brace(k) + 1
            k += 1
        raise AnchorLost(f'{self.path}: item at {start} has no end')

    def _back_over_prefix(self, pos, keep_attrs):
        """Extend start backwards over qualifiers (pub, pub(crate), const, unsafe) on the same
        logical header, and (optionally) over attribute / doc-comment lines directly above."""
        t = self.text
        # qualifiers
        while True:
            m = re.search(r'(pub(\s*\([^)]*\))?|const|unsafe|async|default|extern\s*"[^"]*")\s*$', t[:pos])
            if not m: break
            pos = m.start()
        if keep_attrs:
            while True:
                ls = t.rfind('\n', 0, pos - 1) if pos > 0 else -1
                prev_line_start = t.rfind('\n', 0, ls) + 1 if ls > 0 else 0
                prev = t[prev_line_start:ls] if ls >= 0 else ''
                if t[ls+1:pos].strip() == '' and re.match(r'\s*(#\[|///)', prev):
                    pos = prev_line_start
                else:
                    break
        return pos

    def find(self, kind, name, within=None, keep_attrs=False):
        """Locate an item.  kind: fn|const|static|struct|enum|type|trait|macro_rules|mod.
        within: (start,end) span to search in.  Returns (start, end)."""
        lo, hi = within if within else (0, len(self.text))
        if kind == 'macro_rules':
            pat = r'\bmacro_rules!\s*' + re.escape(name) + r'\b'
        else:
            pat = r'\b' + kind + r'\s+' + re.escape(name) + r'\b'
        hits = [m for m in re.finditer(pat, self.mask[lo:hi])]
        if not hits:
            raise AnchorLost(f'{self.path}: {kind} {name} not found')
        if len(hits) > 1:
            raise AnchorLost(f'{self.path}: {kind} {name} ambiguous ({len(hits)} hits)')
        s = lo + hits[0].start()
        e = self._item_end(s)
        s = self._back_over_prefix(s, keep_attrs)
        return s, e

    def find_impl(self, header_regex, nth=0):
        """Locate an impl block whose header (text between 'impl' and '{', whitespace-normalised)
        matches header_regex.  Returns (start, end, body_start, body_end)."""
        res = []
        for m in re.finditer(r'(?m)^[ \t]*(unsafe\s+)?impl\b', self.mask):
            s = m.start()
            ob = self.mask.find('{', s)
            if ob < 0: continue
            hdr = ' '.join(self.text[m.start():ob].split())
            if re.search(header_regex, hdr):
                cb = self._match_brace(ob)
                res.append((s, cb + 1, ob + 1, cb))
        if len(res) <= nth:
            raise AnchorLost(f'{self.path}: impl matching /{header_regex}/ #{nth} not found')
        return res[nth]

    def get(self, span):
        return self.text[span[0]:span[1]]

def split_fn(text):
    """Split the text of one fn item into (header, body) where body starts at the '{'.
    The header may contain a where clause."""
    mask = _mask(text)
    par = 0
    for k, ch in enumerate(mask):
        if ch in '([': par += 1
        elif ch in ')]': par -= 1
        elif ch == '{' and par == 0:
            return text[:k], text[k:]
    raise AnchorLost('fn without body: ' + text[:60])

def name_return(header, rname='r'):
    """Rewrite `-> T` at paren depth 0 into `-> (r: T)` (Verus named return).  If there is no
    return type nothing is changed.  A trailing where clause is kept after the return type."""
    mask = _mask(header)
    par = 0
    arrow = -1
    for k in range(len(mask) - 1):
        ch = mask[k]
        if ch in '([<' and not (ch == '<' and mask[k-1:k+1] == '-<'):
            if ch != '<': par += 1
        elif ch in ')]': par -= 1
        elif mask[k:k+2] == '->' and par == 0:
            arrow = k
    if arrow < 0:
        return header
    rest = header[arrow+2:]
    m = re.search(r'\bwhere\b', _mask(rest))
    if m:
        ty, tail = rest[:m.start()], rest[m.start():]
    else:
        ty, tail = rest, ''
    return header[:arrow] + f'-> ({rname}: {ty.strip()}) ' + tail
