"""Generated lemma library over M3/V3 (oracle side): cofactor identities, inverse, associativity."""
from fractions import Fraction
from polyproof import Atom, identity_proof, BARE_LEMMAS

ROWS = ['a', 'b', 'c']; COLS = ['x', 'y', 'z']
V = [['a', 'b', 'c'], ['d', 'e', 'f'], ['g', 'h', 'i']]
PARAMS9 = ', '.join(f'{v}: real' for row in V for v in row)

def _atoms():
    return [[Atom(V[i][j]) for j in range(3)] for i in range(3)]

def _adj(A, r, c):
    i, j = c, r
    rr = [k for k in range(3) if k != i]; cc = [k for k in range(3) if k != j]
    mn = A[rr[0]][cc[0]] * A[rr[1]][cc[1]] - A[rr[1]][cc[0]] * A[rr[0]][cc[1]]
    return mn if (r + c) % 2 == 0 else -mn

def _det(A):
    a, b, c = A[0]; d, e, f = A[1]; g, h, i = A[2]
    return a * (e * i - h * f) - b * (d * i - g * f) + c * (d * h - g * e)

def inverse_lemmas():
    out = [BARE_LEMMAS, '''
// ---- inverse lemmas: division-free cofactor identities + one cancellation step per entry ----
pub proof fn lemma_div_mul(x: real, d: real)
    by(nonlinear_arith)
    requires d != 0real
    ensures (x / d) * d == x
{}
pub proof fn lemma_cancel(s: real, t: real, d: real)
    by(nonlinear_arith)
    requires d != 0real, s * d == t * d
    ensures s == t
{}
pub proof fn lemma_dot_scale(p: V3, e: V3, d: real)
    ensures v3_dot(p, e) * d == p.x * (e.x * d) + p.y * (e.y * d) + p.z * (e.z * d)
{
    pp_distr_l(p.x * e.x + p.y * e.y, p.z * e.z, d);
    pp_distr_l(p.x * e.x, p.y * e.y, d);
    pp_assoc(p.x, e.x, d); pp_assoc(p.y, e.y, d); pp_assoc(p.z, e.z, d);
}
pub proof fn lemma_dot_comm(p: V3, q: V3)
    ensures v3_dot(p, q) == v3_dot(q, p)
{ pp_comm(p.x, q.x); pp_comm(p.y, q.y); pp_comm(p.z, q.z); }
// one entry of  A * (adj/d)
pub proof fn lemma_entry(p: V3, c: V3, d: real, target: real)
    requires d != 0real, v3_dot(p, c) == target * d
    ensures v3_dot(p, v3_div(c, d)) == target
{
    let e = v3_div(c, d);
    lemma_div_mul(c.x, d); lemma_div_mul(c.y, d); lemma_div_mul(c.z, d);
    lemma_dot_scale(p, e, d);
    lemma_cancel(v3_dot(p, e), target, d);
}
// one entry of  (adj/d) * A
pub proof fn lemma_entry_l(c: V3, p: V3, d: real, target: real)
    requires d != 0real, v3_dot(c, p) == target * d
    ensures v3_dot(v3_div(c, d), p) == target
{
    lemma_dot_comm(c, p);
    lemma_entry(p, c, d, target);
    lemma_dot_comm(v3_div(c, d), p);
}
''']
    A = _atoms()
    names = {'right': [], 'left': []}
    for i in range(3):
        for k in range(3):
            tgt = _det(A) if i == k else 0 * A[0][0]
            lhs = A[i][0] * _adj(A, 0, k) + A[i][1] * _adj(A, 1, k) + A[i][2] * _adj(A, 2, k)
            n = f'poly_cof_r{i}{k}'; names['right'].append(n)
            out.append(identity_proof(n, PARAMS9, lhs, tgt)[0])
            lhs = _adj(A, i, 0) * A[0][k] + _adj(A, i, 1) * A[1][k] + _adj(A, i, 2) * A[2][k]
            n = f'poly_cof_l{i}{k}'; names['left'].append(n)
            out.append(identity_proof(n, PARAMS9, lhs, tgt)[0])
    args = ', '.join(f'm.{ROWS[i]}.{COLS[j]}' for i in range(3) for j in range(3))
    for side in ('right', 'left'):
        out.append(f'pub proof fn lemma_cofactor_{side}(m: M3)\n    ensures\n')
        for i in range(3):
            for k in range(3):
                tgt = 'm3_det(m)' if i == k else '0real'
                if side == 'right':
                    out.append(f'        v3_dot(m.{ROWS[i]}, m3_col(m3_adj(m), {k})) == {tgt},\n')
                else:
                    out.append(f'        v3_dot(m3_adj(m).{ROWS[i]}, m3_col(m, {k})) == {tgt},\n')
        out.append('{\n')
        for n in names[side]:
            out.append(f'    {n}({args});\n')
        out.append('}\n')
    out.append('''
// A * inv(A) == I  and  inv(A) * A == I  for every real matrix with non-zero determinant
pub proof fn lemma_inverse(m: M3)
    requires m3_det(m) != 0real
    ensures m3_mul(m, m3_inv(m)) == m3_id(), m3_mul(m3_inv(m), m) == m3_id()
{
    let d = m3_det(m); let adj = m3_adj(m); let inv = m3_inv(m);
    lemma_cofactor_right(m); lemma_cofactor_left(m);
''')
    for i in range(3):
        for k in range(3):
            tgt = '1real' if i == k else '0real'
            out.append(f'    lemma_entry(m.{ROWS[i]}, m3_col(adj, {k}), d, {tgt});\n')
            out.append(f'    lemma_entry_l(adj.{ROWS[i]}, m3_col(m, {k}), d, {tgt});\n')
    out.append('''    lemma_m3_ext(m3_mul(m, inv), m3_id());
    lemma_m3_ext(m3_mul(inv, m), m3_id());
}
''')
    return ''.join(out)


def mulvec_assoc_lemma():
    """F.(D.v) == (F*D).v  as three generated polynomial identities (9 + 9 + 3 atoms)."""
    F = [[Atom(f'f{i}{j}') for j in range(3)] for i in range(3)]
    D = [[Atom(f'd{i}{j}') for j in range(3)] for i in range(3)]
    v = [Atom('vx'), Atom('vy'), Atom('vz')]
    params = ', '.join(f'f{i}{j}: real' for i in range(3) for j in range(3)) + ', ' + ', '.join(f'd{i}{j}: real' for i in range(3) for j in range(3)) + ', vx: real, vy: real, vz: real'
    out = []
    for i in range(3):
        Dv = [D[k][0] * v[0] + D[k][1] * v[1] + D[k][2] * v[2] for k in range(3)]
        lhs = F[i][0] * Dv[0] + F[i][1] * Dv[1] + F[i][2] * Dv[2]
        FD = [F[i][0] * D[0][j] + F[i][1] * D[1][j] + F[i][2] * D[2][j] for j in range(3)]
        rhs = FD[0] * v[0] + FD[1] * v[1] + FD[2] * v[2]
        out.append(identity_proof(f'poly_assoc_row{i}', params, lhs, rhs)[0])
    fa = ', '.join(f'f.{ROWS[i]}.{COLS[j]}' for i in range(3) for j in range(3))
    da = ', '.join(f'd.{ROWS[i]}.{COLS[j]}' for i in range(3) for j in range(3))
    out.append(f"""
pub proof fn lemma_mulvec_assoc(f: M3, d: M3, v: V3)
    ensures m3_mulvec(f, m3_mulvec(d, v)) == m3_mulvec(m3_mul(f, d), v)
{{
    poly_assoc_row0({fa}, {da}, v.x, v.y, v.z); poly_assoc_row1({fa}, {da}, v.x, v.y, v.z); poly_assoc_row2({fa}, {da}, v.x, v.y, v.z);
}}
pub proof fn lemma_id_mulvec(v: V3)
    ensures m3_mulvec(m3_id(), v) == v
{{ pp_one(v.x); pp_one(v.y); pp_one(v.z); pp_zero(v.x); pp_zero(v.y); pp_zero(v.z); }}
""")
    return ''.join(out)
