#!/bin/bash
# usage: seedtest.sh <seed dir name e.g. C12> <demo test name> <check ids...>
# 1. confirms in the scratch worktree that the demo fails with the patch and passes without it, and that the suite is unchanged
# 2. stores patch/demo under /verif/seeded/<name>/
# 3. applies the patch to /repo, runs the listed checks, ALWAYS restores /repo afterwards
set -u
NAME=$1; DEMO=$2; shift 2
W=/tmp/${SEEDPREFIX:-seed}_$NAME
OUT=/verif/seeded/$NAME; mkdir -p $OUT
cd $W || exit 3
git diff -- src yuvxyb-math Cargo.toml > $OUT/patch.diff
[ -s $OUT/patch.diff ] || { echo "empty patch"; exit 3; }
DD=${DEMODIR:-.}   # DEMODIR=yuvxyb-math when the demo is an integration test of the math crate
cp $DD/tests/$DEMO.rs $OUT/ 2>/dev/null
echo "== demo WITH patch";  (cd $DD && cargo test --offline --test $DEMO 2>&1 | grep -E "^test result|error(\[|:)|Undefined|unsafe precondition" | head -3) | tee $OUT/demo_with.txt
git stash -q -- src yuvxyb-math 2>/dev/null || git stash -q
echo "== demo WITHOUT patch"; (cd $DD && cargo test --offline --test $DEMO 2>&1 | grep -E "^test result|error(\[|:)" | head -3) | tee $OUT/demo_without.txt
git stash pop -q
echo "== suite WITH patch"; cargo test --workspace --offline --no-fail-fast --lib 2>&1 | grep -E "^test result" | head -2 | tee $OUT/suite_with.txt
cd /verif
if ! git -C /repo diff --quiet; then echo "/repo dirty, abort"; exit 3; fi
git -C /repo apply $OUT/patch.diff || { echo "patch does not apply to /repo"; exit 3; }
for c in "$@"; do
  echo "== check $c on seeded /repo"
  ./check $c > $OUT/check_$c.txt 2>&1; echo "rc=$?" >> $OUT/check_$c.txt
  grep -E "^\[|VIOLATION|UNDECIDED|KNOWN|rc=|failed:" $OUT/check_$c.txt | cut -c1-260
done
git -C /repo checkout -- .
git -C /repo status --short | head -3
